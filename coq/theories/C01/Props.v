(* C01 Props: the property theorems, nothing else.
   A breaker is the rolling window of C09/RW.v (40 x 250 ms) plus the admission rule; `brun` replays
   an event list Begin/End (the two halves of a Do* call, interleavable across calls), Allow,
   PAccept/PReject, Advance on it, `glog` the same list on the Spec side (clock, outcome log).
   `coin_lt m n2 d` is the float64 test r.Float64() < dropRatio for the coin m/2^53; coin_sound is
   its only assumed property (a double below fl(r) is below r). *)
From God Require Import Base.Prelude C09.RW C09.Spec C09.Integ C01.Registry C01.GenEnv C01.Spec C01.Model C01.Proofs C01.Exec C01.Link.
From GodGen Require C01_Gen.
Local Open Scope Z_scope.

Definition coin_sound (coin_lt : Z -> Z -> Z -> bool) : Prop :=
  forall m n2 d, 0 < n2 -> 0 < d -> coin_lt m n2 d = true -> m * (2 * d) < n2 * 2 ^ 53.

(* the window's (accepts, total) = (successes, total) of the outcome log over the visible 10 s, and the
   outcome log holds exactly one entry per End / Accept / Reject event (mark_of), after every history *)
Theorem c01_window_refines_log : forall coin_lt t0 w0, new_rw nbuckets bucket_ns false t0 = Ok w0 ->
  forall evs, Forall ev_ok evs ->
  history (fst (brun coin_lt (w0, t0) evs)) (snd (brun coin_lt (w0, t0) evs)) =
  visible_counts t0 (snd (brun coin_lt (w0, t0) evs)) (snd (glog t0 evs)).
Proof. exact window_refines_log. Qed.
Print Assumptions c01_window_refines_log.

(* a rejection (of a Do* call or of Allow: both go through accept) implies
   2(total-5) > 3 accepts over the visible outcomes, and coin < ratio exactly *)
Theorem c01_reject_only_on_excess : forall coin_lt, coin_sound coin_lt ->
  forall t0 w0, new_rw nbuckets bucket_ns false t0 = Ok w0 -> forall evs, Forall ev_ok evs -> forall m,
  accept coin_lt (fst (brun coin_lt (w0, t0) evs)) (snd (brun coin_lt (w0, t0) evs)) m = false ->
  let (a, t) := visible_counts t0 (snd (brun coin_lt (w0, t0) evs)) (snd (glog t0 evs)) in
  may_reject a t /\ coin_below m a t.
Proof. exact reject_only_on_excess. Qed.
Print Assumptions c01_reject_only_on_excess.

(* never cut off when every visible outcome is a success, or fewer than 6 outcomes are visible ... *)
Theorem c01_never_cut_off_healthy : forall coin_lt, coin_sound coin_lt ->
  forall t0 w0, new_rw nbuckets bucket_ns false t0 = Ok w0 -> forall evs, Forall ev_ok evs -> forall m,
  (let (a, t) := visible_counts t0 (snd (brun coin_lt (w0, t0) evs)) (snd (glog t0 evs)) in a = t \/ t <= 5) ->
  accept coin_lt (fst (brun coin_lt (w0, t0) evs)) (snd (brun coin_lt (w0, t0) evs)) m = true.
Proof. exact never_cut_off. Qed.
Print Assumptions c01_never_cut_off_healthy.

(* ... or when every failure is at least 10 s old (it is then outside the visible buckets) *)
Theorem c01_never_cut_off_aged_out : forall coin_lt, coin_sound coin_lt ->
  forall t0 w0, new_rw nbuckets bucket_ns false t0 = Ok w0 -> forall evs, Forall ev_ok evs -> forall m,
  (forall s, In (s, 0) (snd (glog t0 evs)) -> s + window_ns <= snd (brun coin_lt (w0, t0) evs)) ->
  accept coin_lt (fst (brun coin_lt (w0, t0) evs)) (snd (brun coin_lt (w0, t0) evs)) m = true.
Proof. exact aged_out_never_cut_off. Qed.
Print Assumptions c01_never_cut_off_aged_out.

(* a dependency that keeps failing (no visible success): 1 - ratio = 6/(total+1), so the ratio
   exceeds 1 - p/q for every p/q > 0 once total is large enough (uniform coin: probability -> 1) *)
Theorem c01_failing_is_cut_off :
  (forall t, ratio_den t - ratio_num 0 t = 12) /\
  (forall p q, 0 < p -> 0 < q -> exists N, forall t, N <= t -> q * (ratio_den t - ratio_num 0 t) < p * ratio_den t).
Proof. exact (conj failing_ratio failing_limit). Qed.
Print Assumptions c01_failing_is_cut_off.

(* a rejected call does not run req, leaves the window untouched, and ends in RFallback (the fallback
   was given ErrServiceUnavailable and its result returned) or RUnavailable (that error returned) *)
Theorem c01_rejected_never_runs : forall coin_lt w now m k r, do_begin coin_lt w now m k = Some r ->
  accept coin_lt w now m = false /\ (forall o, r <> RRan o) /\
  (has_fallback k = true -> r = RFallback) /\ (has_fallback k = false -> r = RUnavailable) /\
  fst (bstep coin_lt (w, now) (Begin 0%nat k m)) = (w, now).
Proof. exact rejected_never_runs. Qed.
Print Assumptions c01_rejected_never_runs.

(* a call that was let in and ends records exactly one outcome: success iff the caller's predicate holds
   of its error -- the default predicate (err == nil) for Do / DoWithFallback, the caller-supplied one for
   the two ...Acceptable variants, INCLUDING predicates that reject a nil error or accept non-nil errors;
   a panic (with any value, nil included) is a failure whatever the predicate; the outcome (error or panic) is what the caller gets back *)
Theorem c01_one_mark_per_call_let_in : forall w now k o,
  do_end w now k o = (add w now (if acceptable k o then 1 else 0), RRan o) /\
  acceptable k Panics = false /\ acceptable k PanicsNil = false /\
  (uses_default k = true -> (acceptable k o = true <-> o = OK)) /\
  (forall p, acceptable (KDoWithAcceptableP p) o = pred_ok p o /\ acceptable (KDoWithFallbackAcceptableP p) o = pred_ok p o) /\
  pred_ok PRejectsNil OK = false /\ pred_ok PAll UnacceptableErr = true.
Proof. exact one_mark_per_end. Qed.
Print Assumptions c01_one_mark_per_call_let_in.

(* nested breakers: the fallback runs iff THIS breaker rejected the call (c01_rejected_never_runs); when the call was
   let in and the protected function itself returns ErrServiceUnavailable (an inner breaker is open), the function's
   error goes back to the caller, no fallback runs, and the outcome is recorded per the predicate like any other error *)
Theorem c01_inner_unavailable_is_an_outcome : forall w now k,
  snd (do_end w now k InnerUnavailable) = RRan InnerUnavailable /\
  fst (do_end w now k InnerUnavailable) = add w now (if acceptable k InnerUnavailable then 1 else 0) /\
  (uses_default k = true -> acceptable k InnerUnavailable = false) /\
  acceptable KDoWithAcceptable InnerUnavailable = false /\
  (forall p, acceptable (KDoWithFallbackAcceptableP p) InnerUnavailable = pred_ok p UnacceptableErr).
Proof. exact inner_unavailable. Qed.
Print Assumptions c01_inner_unavailable_is_an_outcome.

(* registry: the same name yields the same breaker, events under one name leave the others alone *)
Theorem c01_registry_independent :
  (forall r name now now', let (r1, w1) := get r name now in get r1 name now' = (r1, w1)) /\
  (forall coin_lt r now a b e, a <> b ->
     alookup Nat.eqb b (fst (fst (rstep coin_lt (r, now) (a, e)))) = alookup Nat.eqb b r) /\
  (forall coin_lt r now a e, (forall dt, e <> Advance dt) ->
     alookup Nat.eqb a (fst (fst (rstep coin_lt (r, now) (a, e)))) =
     Some (fst (fst (bstep coin_lt (snd (get r a now), now) e)))).
Proof. exact (conj get_same (conj registry_independent registry_same)). Qed.
Print Assumptions c01_registry_independent.

(* a success mark never turns may_reject from false to true and lowers a positive drop ratio *)
Theorem c01_success_never_raises_ratio :
  (forall a t, may_reject (a + 1) (t + 1) -> may_reject a t) /\
  (forall a t, 0 <= t -> 0 < ratio_num a t ->
     ratio_num (a + 1) (t + 1) * ratio_den t < ratio_num a t * ratio_den (t + 1)).
Proof. exact (conj success_keeps_closed success_lowers_ratio). Qed.
Print Assumptions c01_success_never_raises_ratio.

(* the outcomes the statement declares benign are success marks for the predicates regenerated from
   rpc/internal/codes (gRPC codes 0..16), lib/store/sqlx and lib/store/redis; HTTP (< 500) is tied by
   the call skeleton (Link.link_http_calls) and the black-box correspondence *)
Theorem c01_benign_never_open : forall which arg, (which <= 2)%nat -> (which = 0%nat -> 0 <= arg <= 16) ->
  benign which arg = true -> pred which arg = true.
Proof. exact benign_pred. Qed.
Print Assumptions c01_benign_never_open.

(* HTTP: BreakerHandler marks Accept iff the Code held by response.WithCodeResponseWriter is < 500; for every
   way a handler can produce a response without panicking (WriteHeader(c), Write without WriteHeader, nothing
   written, streaming with Flush) that is exactly "the status the client gets is below 500" (implicit 200s
   included); a panic converted by RecoverHandler (inside, api/engine.go order) is a failure mark *)
Theorem c01_http_mark : 
  (forall g s, panics s = false -> 100 <= http_status g s -> http_mark g s = (http_status g s <? 500)) /\
  (forall s, panics s = true -> http_mark true s = false).
Proof. exact http_mark_spec. Qed.
Print Assumptions c01_http_mark.

(* RPC breaker interceptors (server and client): the mark is codes.Acceptable of the returned error; a
   benign code returned is a success mark *)
Theorem c01_rpc_benign : forall c, 0 <= c <= 16 -> benign 5 c = true -> rpc_mark c = true.
Proof. exact rpc_benign. Qed.
Print Assumptions c01_rpc_benign.

(* registry under concurrent first use (breakers.go Get: RLock-read, then Lock / re-check / create): for any
   number of goroutines, any names and ANY interleaving of their [RLock-read] and [Lock; re-check; create]
   steps, two goroutines that asked for the same name hold the same breaker, the one registered under the
   name -- and it stays registered whatever happens later *)
Theorem c01_registry_one_breaker_per_name : forall names sched t1 t2 n b1 b2,
  let s := Registry.run true (Registry.init names) sched in
  alookup Nat.eqb t1 (thr s) = Some (n, Done b1) ->
  alookup Nat.eqb t2 (thr s) = Some (n, Done b2) ->
  b1 = b2 /\ alookup Nat.eqb n (rmap s) = Some b1.
Proof. exact one_breaker_per_name. Qed.
Print Assumptions c01_registry_one_breaker_per_name.

Theorem c01_registry_breaker_stays : forall names sched more t n b,
  alookup Nat.eqb t (thr (Registry.run true (Registry.init names) sched)) = Some (n, Done b) ->
  alookup Nat.eqb n (rmap (Registry.run true (Registry.run true (Registry.init names) sched) more)) = Some b.
Proof. exact registered_stays. Qed.
Print Assumptions c01_registry_breaker_stays.

(* the re-check under the write lock is what this rests on: without it, two goroutines that both missed
   under RLock each install their own breaker (schedule: read, read, create, create) *)
Example c01_registry_needs_recheck :
  let s := Registry.run false (Registry.init [7; 7]%nat) [0; 1; 0; 1]%nat in
  alookup Nat.eqb 0%nat (thr s) = Some (7%nat, Done 0%nat) /\ alookup Nat.eqb 1%nat (thr s) = Some (7%nat, Done 1%nat).
Proof. vm_compute. split; reflexivity. Qed.

(* and every thread gets its breaker: the forced interleaving of 4 goroutines ends with one identity *)
Example c01_registry_forced_interleaving : ndistinct (reg_ids 4) = 1%nat /\ List.length (reg_ids 4) = 5%nat.
Proof. vm_compute. split; reflexivity. Qed.

(* RPC interceptors as streams: for every call class a transport can produce -- status.Error(code) under a live
   context, the DeadlineExceeded status of a caller whose own deadline has expired, the Canceled status of a
   cancelled caller, a panic -- the mark made through the generated codes.Acceptable is the statement's: an
   expired deadline is a failure (it moves the breaker), Canceled never does *)
Theorem c01_ctx_outcomes :
  (forall cl c, (cl <= 2)%nat -> 0 <= c <= 16 -> m_mark cl c = m_benign cl c) /\
  (forall c, m_mark 1 c = false) /\ (forall c, m_mark 2 c = true) /\ (forall cl c, (3 <= cl)%nat -> m_mark cl c = false).
Proof. exact ctx_outcomes. Qed.
Print Assumptions c01_ctx_outcomes.

(* every sqlx / redis call site classifies with the generated predicate of its package: the benign error
   classes (nil, ErrNoRows, ErrTxDone, context.Canceled; nil, redis.Nil, context.Canceled) are success marks *)
Theorem c01_call_sites_benign : forall arg, 0 <= arg ->
  (benign 7 arg = true -> pred 7 arg = true) /\ (benign 8 arg = true -> pred 8 arg = true).
Proof. exact site_benign. Qed.
Print Assumptions c01_call_sites_benign.

(* codes.Acceptable as regenerated from rpc/internal/codes/accept.go, for EVERY numeric code -- the named ones 0..16
   (Unauthenticated = 16 lies above the server-fault block 12..15) and unnamed ones alike: exactly the five codes of
   the statement are failures *)
Theorem c01_grpc_every_code : forall c,
  gen_grpc_acceptable c = negb (existsb (Z.eqb c) [4; 13; 14; 15; 12]).
Proof. exact link_grpc_gen. Qed.
Print Assumptions c01_grpc_every_code.

(* HTTP through the chain the engine assembles (BreakerHandler outside RecoverHandler): the mark is a success exactly
   when the status the client gets is below 500; a handler that panics on every request is a failure every time *)
Theorem c01_engine_marks :
  (forall cl c, h_mark cl c = h_benign cl c) /\ (forall cl c, (4 <= cl <= 9)%nat -> h_mark cl c = false) /\
  (* a client that disconnects mid-flight is benign for the route's breaker: 499 from the timeout handler, or the route's own answer *)
  (forall c, h_mark 10 c = true /\ h_mark 11 c = true).
Proof. exact engine_marks. Qed.
Print Assumptions c01_engine_marks.

(* HTTP client (api/httpc namedService.do): the outcome handed to the named breaker is a success exactly when a response
   came back with a status below 500 -- 4xx of any kind included; 5xx and transport errors (no response) are failures *)
Theorem c01_http_client_marks : forall st, pred 10 st = benign 10 st /\ pred 10 1000 = false /\ pred 10 429 = true.
Proof. intro st. repeat split. Qed.
Print Assumptions c01_http_client_marks.

(* rejection under concurrency: accept is a function of the window and of the caller's OWN coin; whoever draws a coin below
   a positive ratio is rejected, whatever other callers are doing (model: every Begin / Allow event carries its own coin m;
   c01_reject_only_on_excess gives the converse).  With coin 0 and a positive excess nobody is let in. *)
Theorem c01_every_caller_draws : forall coin_lt w now,
  (forall n2 d, 0 < n2 -> coin_lt 0 n2 d = true) ->
  0 < excess2 (fst (history w now)) (snd (history w now)) ->
  forall k id, (snd (bstep coin_lt (w, now) (Allow id 0)), snd (bstep coin_lt (w, now) (Begin id k 0))) =
               (OAllowRejected, ORejected (if has_fallback k then RFallback else RUnavailable)).
Proof. exact every_caller_draws. Qed.
Print Assumptions c01_every_caller_draws.

(* ---------------- non-vacuity ---------------- *)
Example c01_rejection_happens :
  match new_rw nbuckets bucket_ns false 0 with
  | Ok w0 =>
      let evs := flat_map (fun i => [Begin i KDo 0; End i KDo UnacceptableErr]) (seq 0 8) in
      let st := brun coin_lt_f (w0, 0) evs in
      Forall ev_ok evs /\
      history (fst st) (snd st) = (0, 8) /\
      accept coin_lt_f (fst st) (snd st) 0 = false /\                  (* coin 0 < 3/9 *)
      accept coin_lt_f (fst st) (snd st) (2 ^ 52) = true /\            (* coin 1/2 >= 3/9 *)
      accept coin_lt_f (fst st) (snd st + 10000000000) 0 = true        (* 10 s later: aged out *)
  | _ => False
  end.
Proof. vm_compute. repeat split; repeat constructor. Qed.
