(* C01 Spec: the outcome log of a breaker and the admission rule over its visible part.
   An entry (t, 1) is a success recorded at t, (t, 0) a failure.  Visibility is the bucket-aligned
   trailing 10 s of C09 (40 buckets of 250 ms, current bucket included). *)
From God Require Import Base.Prelude C09.RW C09.Spec.
Local Open Scope Z_scope.

Definition I250 : Z := 250000000.
Definition N40 : Z := 40.
Definition window_ns : Z := 10000000000.

(* (successes, total) among the visible outcomes at time `now` of a breaker created at t0 *)
Definition visible_counts (t0 now : Z) (l : log) : Z * Z := log_total (vis_log t0 I250 N40 false now l).

(* the statement's condition "(total - 5) exceeds 1.5 x successes", doubled to stay in Z *)
Definition may_reject (accepts total : Z) : Prop := 2 * (total - 5) > 3 * accepts.

(* drop ratio = ((total-5) - 1.5 accepts)/(total+1) = num/den with: *)
Definition ratio_num (accepts total : Z) : Z := 2 * (total - 5) - 3 * accepts.
Definition ratio_den (total : Z) : Z := 2 * (total + 1).

(* coin u = m / 2^53 is below the ratio *)
Definition coin_below (m accepts total : Z) : Prop :=
  m * ratio_den total < ratio_num accepts total * 2 ^ 53.
