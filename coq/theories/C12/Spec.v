(* C12 Spec: the property as a small abstract object.
   (1) transparency: a wrapper call = the raw go-redis command with the placed arguments, its reply
       passed through the documented conversion and redis.Nil policy (spec_result);
   (2) sharding: a kv.Store over several servers = one server holding every key;
   (3) breaker: exactly nil, redis.Nil and context.Canceled count as success. *)
From God Require Import Base.Prelude C12.GenEnv C12.Table C12.Model.
From Coq Require Import String.
Local Open Scope string_scope.

Section Transparency.
  Variable repr : val -> string.

  (* the documented result of a wrapper method, as a function of the raw command's reply *)
  Definition spec_result (c : cmdrow) (raw : val * err) : val * err :=
    let '(v, e) := raw in
    match e with
    | ENone => apply_conv repr (r_conv c) v
    | ENil => match r_nil c with
              | NilReturned => (VZero, ENil)
              | NilSwallowed => (VZero, ENone)          (* the documented zero value, no error *)
              | AllErrSwallowed => (VB false, ENone)
              end
    | e' => match r_nil c with AllErrSwallowed => (VB false, ENone) | _ => (VZero, e') end
    end.
End Transparency.

(* exactly these never trip the breaker *)
Definition spec_acceptable (e : err) : Prop := e = ENone \/ e = ENil \/ e = ECanceled.

Section OneServer.
  Variables N K A R : Type.
  Variable node_run : N -> K -> A -> N * R.

  (* a history of single-key commands against ONE server holding all keys *)
  Fixpoint srun (s : N) (h : list (K * A)) : N * list R :=
    match h with
    | [] => (s, [])
    | (k, a) :: t => let '(s1, r) := node_run s k a in let '(s2, rs) := srun s1 t in (s2, r :: rs)
    end.

  Variable owner : K -> nat.

  (* the same history against the sharded store *)
  Fixpoint crun (cl : cluster N) (h : list (K * A)) : cluster N * list R :=
    match h with
    | [] => (cl, [])
    | (k, a) :: t => let '(c1, r) := kv_step node_run owner cl k a in let '(c2, rs) := crun c1 t in (c2, r :: rs)
    end.

  (* abstract state of the cluster: every key's slot, read on the node that owns the key *)
  Variable Slot : Type.
  Variable get : N -> K -> Slot.
  Definition agrees (cl : cluster N) (s : N) : Prop := forall k, get (cl (owner k)) k = get s k.
End OneServer.

Arguments srun {N K A R} node_run s h.
Arguments crun {N K A R} node_run owner cl h.
Arguments agrees {N K} owner {Slot} get cl s.

(* script cache: the sha answered for a text is the most recent one registered for exactly that text *)
Definition last_set (script : string) (h : list (string * string)) : option string :=
  fold_left (fun acc p => if String.eqb (fst p) script then Some (snd p) else acc) h None.
