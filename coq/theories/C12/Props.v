(* C12 Props: the property theorems, nothing else.
   C12_Table.* is regenerated from lib/store/redis/redis.go and lib/store/kv/store.go on every run;
   redis_spec / kv_spec is the documented, hand-reviewed correspondence (RedisSpec.v). *)
From God Require Import Base.Prelude C12.GenEnv C12.Table C12.Model C12.Spec C12.RedisSpec C12.Proofs C12.Link.
From GodGen Require C12_Gen C12_Table.
From Coq Require Import String.
Local Open Scope string_scope.

(* The wrapper as it is written today is, method by method, the documented correspondence:
   same go-redis command, same argument placement, same conversion, same redis.Nil policy, same
   breaker guard; every method classified; plain forms follow the delegation rule.  Finite statement;
   its bound -- the tables -- is in the statement. *)
Theorem c12_table_ok :
  C12_Table.redis_table = redis_spec /\
  C12_Table.kv_table = kv_spec /\
  forallb (plain_ok C12_Table.redis_table) C12_Table.plain_table = true /\
  forallb (has_plain C12_Table.plain_table) C12_Table.redis_table = true /\
  forallb (kv_plain_ok C12_Table.kv_table) C12_Table.kv_plain_table = true /\
  forallb (kv_ctx_ok C12_Table.redis_table) C12_Table.kv_table = true /\
  C12_Table.client_table = client_spec /\
  C12_Table.scriptcache_table = scriptcache_spec /\
  C12_Table.construction_table = construction_spec.
Proof.
  exact (conj link_redis_table (conj link_kv_table (conj link_plain_rule (conj link_plain_complete
        (conj link_kv_plain_rule (conj link_kv_ctx (conj link_client_table
        (conj link_scriptcache_table link_construction_table)))))))).
Qed.
Print Assumptions c12_table_ok.

(* Transparency.  For ANY server semantics `exec`, any state, context and arguments: a call of a
   context-form method that the breaker lets through leaves the server in exactly the state the raw
   go-redis command with the placed arguments leaves it in, and returns the documented conversion of
   that command's reply.  (raw_err_zero: go-redis hands out the zero value together with an error.) *)
Theorem c12_transparent :
  forall name ps c, find_row C12_Table.redis_table name = Some (Cmd name ps c) ->
  forall (S C B : Type) (bg : C) (exec : S -> C -> string -> list val -> S * (val * err)) (repr : val -> string)
         (accept : B -> bool * B) (mark : B -> bool -> B) fuel b b1 st ctx args,
    guard_holds (r_guard c) args = false -> node_ok c args -> accept b = (true, b1) ->
    let raw := exec st ctx (r_cmd c) (place args (r_args c)) in
    (snd (snd raw) <> ENone -> fst (snd raw) = VZero) ->
    exists bs' told,
      run bg exec repr accept mark ENone (Datatypes.S fuel) C12_Table.redis_table name b st ctx args
        = Some ((bs', fst raw), spec_result repr c (snd raw), told).
Proof.
  intros name ps c Hf S C B bg exec repr accept mark fuel b b1 st ctx args Hg Hn Ha raw Hz.
  cbn [run]. rewrite Hf.
  rewrite (run_cmd_spec S C B exec repr accept mark c b b1 st ctx args Hg Hn Ha Hz). fold raw.
  destruct (r_wrapped c); eauto.
Qed.
Print Assumptions c12_transparent.

(* The size guard of the two ...AndLimit methods: no round trip, empty result, no error. *)
Theorem c12_guarded_short_circuit :
  forall name ps c, find_row C12_Table.redis_table name = Some (Cmd name ps c) -> r_wrapped c = true ->
  forall (S C B : Type) (bg : C) (exec : S -> C -> string -> list val -> S * (val * err)) repr
         (accept : B -> bool * B) (mark : B -> bool -> B) gerr fuel b b1 st ctx args,
    accept b = (true, b1) -> guard_holds (r_guard c) args = true ->
    run bg exec repr accept mark gerr (Datatypes.S fuel) C12_Table.redis_table name b st ctx args
      = Some ((mark b1 true, st), (VZero, ENone), Some true).
Proof.
  intros. cbn [run]. rewrite H. f_equal. apply run_cmd_guarded; assumption.
Qed.
Print Assumptions c12_guarded_short_circuit.

(* Plain form = context form under context.Background(), same arguments in order -- for every plain
   method of the generated table, and every context form has a plain twin. *)
Theorem c12_ctx_plain_same :
  (forall name ps target aargs, In (Deleg name ps target aargs) C12_Table.plain_table ->
     target = name ++ "Ctx" /\ aargs = Bg :: std_args 0 ps /\
     (exists c, In c C12_Table.redis_table /\ row_name c = target /\ params_of c = ps) /\
     forall (S C B : Type) (bg : C) exec repr (accept : B -> bool * B) mark gerr fuel tbl b (st : S) (ctx : C) args,
       find_row tbl name = Some (Deleg name ps target aargs) -> List.length args = List.length ps ->
       run bg exec repr accept mark gerr (Datatypes.S fuel) tbl name b st ctx args =
       run bg exec repr accept mark gerr fuel tbl target b st bg args) /\
  (forall c, In c C12_Table.redis_table -> exists p, In p C12_Table.plain_table /\ row_name p ++ "Ctx" = row_name c).
Proof.
  split.
  - intros name ps target aargs Hin.
    pose proof link_plain_rule as H. rewrite forallb_forall in H. specialize (H _ Hin).
    apply plain_ok_sound in H as [Ht [Ha Hc]]. split; [assumption|]. split; [assumption|]. split; [assumption|].
    intros. subst aargs. eapply plain_same; eassumption.
  - intros c Hin. pose proof link_plain_complete as H. rewrite forallb_forall in H. specialize (H _ Hin).
    unfold has_plain in H. apply existsb_exists in H as [p [Hp He]]. apply String.eqb_eq in He. eauto.
Qed.
Print Assumptions c12_ctx_plain_same.

(* redis.Nil policy: the documented swallowers are exactly GetCtx and GetSetCtx; a swallower answers
   an absent key with the zero value and a nil error, every other method hands redis.Nil through. *)
Theorem c12_nil_policy :
  map row_name (filter swallows C12_Table.redis_table) = ["GetCtx"; "GetSetCtx"] /\
  forall name ps c, find_row C12_Table.redis_table name = Some (Cmd name ps c) ->
  forall (S C B : Type) (bg : C) (exec : S -> C -> string -> list val -> S * (val * err)) repr
         (accept : B -> bool * B) (mark : B -> bool -> B) fuel b b1 st ctx args,
    guard_holds (r_guard c) args = false -> node_ok c args -> accept b = (true, b1) ->
    snd (exec st ctx (r_cmd c) (place args (r_args c))) = (VZero, ENil) ->
    exists bs told,
      run bg exec repr accept mark ENone (Datatypes.S fuel) C12_Table.redis_table name b st ctx args =
      Some (bs, match r_nil c with
                | NilSwallowed => (VZero, ENone)
                | NilReturned => (VZero, ENil)
                | AllErrSwallowed => (VB false, ENone)
                end, told).
Proof.
  split; [exact link_nil_swallowers|].
  intros name ps c Hf S C B bg exec repr accept mark fuel b b1 st ctx args Hg Hn Ha Hr.
  destruct (c12_transparent name ps c Hf S C B bg exec repr accept mark fuel b b1 st ctx args Hg Hn Ha) as [bs [told E]].
  { rewrite Hr. reflexivity. }
  rewrite E, Hr. simpl. eauto.
Qed.
Print Assumptions c12_nil_policy.

(* Sharding.  Under key-locality of the single-key methods and a total deterministic key |-> node
   function (C13), the sharded store answers every history of single-key commands exactly like one
   server holding all keys, and its abstract state (every key's slot on its owner) stays that
   server's state. *)
Theorem c12_shard_equiv :
  forall (N K A R Slot : Type) (K_dec : forall a b : K, {a = b} + {a <> b})
         (node_run : N -> K -> A -> N * R) (owner : K -> nat) (get : N -> K -> Slot)
         (reply_of : K -> A -> Slot -> R) (slot_of : K -> A -> Slot -> Slot),
    (forall n k a,
        snd (node_run n k a) = reply_of k a (get n k) /\
        get (fst (node_run n k a)) k = slot_of k a (get n k) /\
        forall k', k' <> k -> get (fst (node_run n k a)) k' = get n k') ->
    forall h cl s, agrees owner get cl s ->
      snd (crun node_run owner cl h) = snd (srun node_run s h) /\
      agrees owner get (fst (crun node_run owner cl h)) (fst (srun node_run s h)).
Proof. exact shard_equiv. Qed.
Print Assumptions c12_shard_equiv.

(* ... and every kv.Store method of the generated table is such a single-key command: it asks the
   dispatcher for exactly the key that its (breaker-guarded) go-redis command operates on. *)
Theorem c12_kv_dispatch_on_key :
  forall r, In r C12_Table.kv_table -> kv_entry_ok C12_Table.redis_table C12_Table.kv_table r = true.
Proof. apply forallb_forall. exact link_kv_dispatch. Qed.
Print Assumptions c12_kv_dispatch_on_key.

(* Multi-key delete (kv DelCtx: one DelCtx per key on that key's node): every named key is gone,
   no other key is touched, and the per-key replies are those of one server. *)
Theorem c12_multidel :
  forall (N K A R Slot : Type) (K_dec : forall a b : K, {a = b} + {a <> b})
         (node_run : N -> K -> A -> N * R) (owner : K -> nat) (get : N -> K -> Slot)
         (reply_of : K -> A -> Slot -> R) (slot_of : K -> A -> Slot -> Slot),
    (forall n k a,
        snd (node_run n k a) = reply_of k a (get n k) /\
        get (fst (node_run n k a)) k = slot_of k a (get n k) /\
        forall k', k' <> k -> get (fst (node_run n k a)) k' = get n k') ->
    forall (empty : Slot) (del : A), (forall k s, slot_of k del s = empty) ->
    forall ks cl s, agrees owner get cl s ->
      let cl' := fst (kv_each node_run owner cl ks del) in
      (forall k, In k ks -> get (cl' (owner k)) k = empty) /\
      (forall k, ~ In k ks -> get (cl' (owner k)) k = get (cl (owner k)) k) /\
      snd (kv_each node_run owner cl ks del) = snd (srun node_run s (map (fun k => (k, del)) ks)).
Proof. exact multidel. Qed.
Print Assumptions c12_multidel.

(* Breaker.  The generated `acceptable` accepts exactly nil, redis.Nil and context.Canceled; every
   command method is guarded by the breaker except the documented three; a guarded call reports
   success to the breaker iff its error is one of those three, and a rejected call never reaches the
   server. *)
Theorem c12_breaker_acceptance :
  (forall e, C12_Gen.acceptable e = true <-> (e = ENone \/ e = ENil \/ e = ECanceled)) /\
  (forall name ps c, In (Cmd name ps c) C12_Table.redis_table ->
     r_wrapped c = true \/ In name ["BLPopExCtx"; "BLPopWithTimeoutCtx"; "ScriptLoadCtx"]) /\
  (forall (S C B : Type) (exec : S -> C -> string -> list val -> S * (val * err)) repr
          (accept : B -> bool * B) (mark : B -> bool -> B) gerr c b st ctx args,
     (forall bs res m, run_cmd exec repr accept mark gerr c b st ctx args = (bs, res, Some m) ->
        (m = true <-> (snd res = ENone \/ snd res = ENil \/ snd res = ECanceled))) /\
     (forall b1, r_wrapped c = true -> accept b = (false, b1) ->
        exists res, run_cmd exec repr accept mark gerr c b st ctx args = ((b1, st), res, None))).
Proof.
  split; [|split].
  - intro e. rewrite link_acceptable. apply acceptable_spec.
  - intros name ps c Hin. pose proof link_guarded as H. rewrite forallb_forall in H. specialize (H _ Hin).
    unfold guarded_ok in H. apply orb_true_iff in H as [H|H]; [left; assumption|right].
    apply existsb_exists in H as [x [Hx He]]. apply String.eqb_eq in He. subst. exact Hx.
  - intros. split.
    + intros bs res m H. exact (run_cmd_mark S C B exec repr accept mark c b st ctx args gerr bs res m H).
    + intros b1 Hw Ha. rewrite (run_cmd_rejected S C B exec repr accept mark c b b1 st ctx args gerr Hw Ha). eauto.
Qed.
Print Assumptions c12_breaker_acceptance.

(* Every kv.Store context-form method hands its own ctx to a context-form method (of the wrapper: a row of the
   generated redis table; or of the store itself): a dead context reaches go-redis. *)
Theorem c12_kv_ctx_passed :
  forall r, In r C12_Table.kv_table -> kv_ctx_ok C12_Table.redis_table r = true.
Proof. apply forallb_forall. exact link_kv_ctx. Qed.
Print Assumptions c12_kv_ctx_passed.

(* Client isolation.  The go-redis client of an address is created from a fresh options literal keyed and
   addressed by r.Addr (generated client_table); with options captured by value at creation, for ANY history of
   wrapper calls over any number of addresses: a call of wrapper(addr) has exactly the reply and the effect of
   its command on server(addr), touches no other server, and servers of addresses not called are unchanged. *)
Theorem c12_client_isolated :
  forallb client_fresh C12_Table.client_table = true /\
  forall (S Cmd R : Type) (exec1 : S -> Cmd -> S * R),
    (forall m (n : net S) r cmd, cm_inv m ->
       let res := wcall exec1 (m, n) r cmd in
       snd res = snd (exec1 (n (i_addr r)) cmd) /\
       snd (fst res) (i_addr r) = fst (exec1 (n (i_addr r)) cmd) /\
       (forall a, a <> i_addr r -> snd (fst res) a = n a) /\
       cm_inv (fst (fst res)) /\
       (forall a c, alookup String.eqb a m = Some c -> alookup String.eqb a (fst (fst res)) = Some c)) /\
    (forall h (n : net S) a, (forall r cmd, In (r, cmd) h -> i_addr r <> a) ->
       snd (fst (wcalls exec1 ([], n) h)) a = n a).
Proof.
  split; [exact link_client_fresh|]. intros S Cmd R exec1. split.
  - intros. apply wcall_spec. assumption.
  - intros h n a H. apply wcalls_isolated; [|assumption]. intros x c Hx. discriminate.
Qed.
Print Assumptions c12_client_isolated.

(* Script cache: after ANY history of SetSha calls, GetSha(script) is the most recent sha registered for exactly
   that text, and absent if the text was never registered. *)
Theorem c12_scriptcache_last_write :
  forall (h : list (string * string)) (script : string),
    sc_get (sc_run [] h) script = last_set script h.
Proof. intros h s. apply sc_last_write. reflexivity. Qed.
Print Assumptions c12_scriptcache_last_write.

(* ... so evaluating by the cached sha is evaluating the script: if the server resolves `sha` to `script`
   (it does once the script was loaded), EvalShaCtx(GetSha(script)) and EvalCtx(script) are the same call. *)
Theorem c12_evalsha_cached :
  forall (S C B : Type) (bg : C) (exec : S -> C -> string -> list val -> S * (val * err)) repr
         (accept : B -> bool * B) (mark : B -> bool -> B) gerr (cache : scache) script sha,
    sc_get cache script = Some sha ->
    (forall st ctx rest, exec st ctx "EvalSha" (VS sha :: rest) = exec st ctx "Eval" (VS script :: rest)) ->
    forall fuel b st ctx keys argv,
      run bg exec repr accept mark gerr (Datatypes.S fuel) C12_Table.redis_table "EvalShaCtx" b st ctx
          [match sc_get cache script with Some x => VS x | None => VZero end; keys; argv] =
      run bg exec repr accept mark gerr (Datatypes.S fuel) C12_Table.redis_table "EvalCtx" b st ctx [VS script; keys; argv].
Proof.
  intros S C B bg exec repr accept mark gerr cache script sha Hc Hs fuel b st ctx keys argv.
  rewrite Hc. cbn [run]. destruct link_eval_rows as [E1 E2]. rewrite E1, E2.
  unfold run_cmd, body. cbn -[place tail acceptable]. destruct (accept b) as [ok b1]. destruct ok; [|reflexivity].
  destruct gerr; try reflexivity. unfold place. cbn [flat_map place1 eval1 nth app]. rewrite Hs. reflexivity.
Qed.
Print Assumptions c12_evalsha_cached.

(* Construction options.  New(addr, opts...) yields an instance whose go-redis client is configured with exactly the
   arguments given -- address addr; cluster client iff WithCluster() is among the options; TLS iff WithTLS() is; the
   password of the LAST WithPass (none: empty) -- whatever the order and combination of the options;
   Config{Host, Type, Pass, Tls}.NewRedis() hands every one of type=cluster, Pass, Tls on, independently. *)
Theorem c12_options_applied :
  (forall addr opts,
     let '(ty, a, p, t) := dial_config (new_w addr opts) in
     a = addr /\ (ty = TCluster <-> In OCluster opts) /\ (t = true <-> In OTLS opts) /\ p = last_pass opts "") /\
  (forall c, dial_config (new_redis c) =
             ((if String.eqb (c_type c) "cluster" then TCluster else TNode), c_host c, c_pass c, c_tls c)) /\
  (* a blocking node of the instance dials like the instance itself -- TLS iff WithTLS() -- (generated
     CreateBlockingNode row: tlsConfig from r.tls reaches both option literals) *)
  (blocking_tls_ok C12_Table.construction_table = true /\
   forall addr opts, blocking_config (new_w addr opts) = dial_config (new_w addr opts)).
Proof.
  split; [|split; [|split; [exact link_blocking_tls|reflexivity]]].
  - intros addr opts. unfold dial_config, new_w.
    destruct (fold_opts opts (mkw addr TNode "" false)) as [Ha [Ht [Hl Hp]]]. simpl in *.
    repeat split; try assumption.
    + intro H. apply Ht in H as [H|H]; [discriminate|assumption].
    + intro H. apply Ht. right. assumption.
    + intro H. apply Hl in H as [H|H]; [discriminate|assumption].
    + intro H. apply Hl. right. assumption.
  - intro c. rewrite new_redis_fields. reflexivity.
Qed.
Print Assumptions c12_options_applied.

(* Blocking nodes own their client.  For ANY history of getClient / CreateBlockingNode / node.Close() calls: no pooled
   client of the manager (the one every *Redis of that address uses) is ever closed, and a client is closed only by a
   Close() on exactly that blocking node -- so closing one node affects neither r, nor another *Redis of the same
   address, nor another open node. *)
Theorem c12_blocking_node_owned :
  forall h,
    (forall a id, In (a, id) (bs_mgr (brun h)) -> ~ In id (bs_closed (brun h))) /\
    (forall id, In id (bs_closed (brun h)) -> In (BClose id) h).
Proof.
  intro h. split.
  - intros a id Hin Hc.
    assert (I : binv (brun h)). { apply brun_inv. unfold binv; simpl. split; [|split]; intros; contradiction. }
    destruct I as [Hm [_ Hcl]]. destruct (Hm _ _ Hin) as [_ Hn]. apply Hn, Hcl, Hc.
  - intros id H. apply closed_only_by_close in H as [H|H]; [contradiction|assumption].
Qed.
Print Assumptions c12_blocking_node_owned.

(* Connection-level failures count.  Whatever error the go-redis command ends with other than nil, redis.Nil and
   context.Canceled -- a refused connection, a bare io.EOF after the peer accepted and hung up, a reset, a timeout --
   every breaker-guarded method other than PingCtx (which swallows every error by design) returns that error
   unchanged and reports a FAILURE to its breaker.  (Eventually ErrServiceUnavailable: breaker property, driven.) *)
Theorem c12_conn_failures_counted :
  map row_name (filter swallows_all C12_Table.redis_table) = ["PingCtx"] /\
  (forall e, e <> ENone -> e <> ENil -> e <> ECanceled -> C12_Gen.acceptable e = false) /\
  forall name ps c, find_row C12_Table.redis_table name = Some (Cmd name ps c) ->
    r_wrapped c = true -> r_nil c <> AllErrSwallowed ->
  forall (S C B : Type) (bg : C) (exec : S -> C -> string -> list val -> S * (val * err)) repr
         (accept : B -> bool * B) (mark : B -> bool -> B) fuel b b1 st ctx args,
    guard_holds (r_guard c) args = false -> node_ok c args -> accept b = (true, b1) ->
    let raw := exec st ctx (r_cmd c) (place args (r_args c)) in
    C12_Gen.acceptable (snd (snd raw)) = false ->
    exists v,
      run bg exec repr accept mark ENone (Datatypes.S fuel) C12_Table.redis_table name b st ctx args
        = Some ((mark b1 false, fst raw), (v, snd (snd raw)), Some false).
Proof.
  split; [exact link_all_err_swallowers|]. split.
  - intros e H1 H2 H3. rewrite link_acceptable. destruct e; simpl; congruence.
  - intros name ps c Hf Hw Hn S C B bg exec repr accept mark fuel b b1 st ctx args Hg Hno Ha raw He.
    rewrite link_acceptable in He.
    destruct (run_cmd_failure S C B exec repr accept mark c b b1 st ctx args Hw Hn Hg Hno Ha He) as [v E].
    exists v. cbn [run]. rewrite Hf. f_equal. exact E.
Qed.
Print Assumptions c12_conn_failures_counted.

(* Multi-key delete under a shard fault.  With some shards unreachable, kv DelCtx (one DelCtx per key, errors collected,
   loop continued) has exactly the effect and the per-key replies of the fault-free multi-key delete over the named
   keys whose shard is reachable -- wherever the unreachable keys stand in the argument list: first, middle or last --
   and reports an error iff some named key is unreachable.  With c12_multidel: every reachable named key is removed,
   the count covers exactly them, the rest of the store is untouched. *)
Theorem c12_multidel_partial :
  forall (N K A R : Type) (node_run : N -> K -> A -> N * R) (owner : K -> nat) (down : nat -> bool) ks a cl,
    fst (kv_each_f node_run owner down cl ks a) =
      fst (kv_each node_run owner cl (filter (fun k => negb (down (owner k))) ks) a) /\
    flat_map (fun o => match o with Some x => [x] | None => [] end) (snd (kv_each_f node_run owner down cl ks a)) =
      snd (kv_each node_run owner cl (filter (fun k => negb (down (owner k))) ks) a) /\
    (existsb (fun o => match o with None => true | Some _ => false end) (snd (kv_each_f node_run owner down cl ks a))
       = existsb (fun k => down (owner k)) ks).
Proof. intros. apply kv_each_f_filter. Qed.
Print Assumptions c12_multidel_partial.

(* Metrics hook.  Every use of a metric vector in the wrapper package passes exactly the declared number of label
   values (so the go-redis hook cannot panic on label cardinality when the Prometheus agent is enabled, whatever the
   command's outcome); the vectors and their uses are the documented ones.  Behaviour with the agent enabled: driven
   (error histories in a metrics-enabled driver process). *)
Theorem c12_metrics_label_arity :
  C12_Table.metrics_table = metrics_spec /\
  forall m n uses, In (m, n, uses) C12_Table.metrics_table -> forall u, In u uses -> u = n.
Proof.
  split; [exact link_metrics_table|].
  intros m n uses Hin u Hu. pose proof link_metrics_arity as H. rewrite forallb_forall in H.
  specialize (H _ Hin). simpl in H. rewrite forallb_forall in H. specialize (H _ Hu).
  apply Nat.eqb_eq in H. congruence.
Qed.
Print Assumptions c12_metrics_label_arity.

(* ---- non-vacuity ---- *)
Example c12_rows_exist :
  find_row C12_Table.redis_table "ZScoreCtx" =
    Some (Cmd "ZScoreCtx" ["string"; "string"] (mkcmd true NodeGetRedis NoGuard "ZScore" [P 0; P 1] CI64 NilReturned)) /\
  find_row C12_Table.redis_table "GetCtx" =
    Some (Cmd "GetCtx" ["string"] (mkcmd true NodeGetRedis NoGuard "Get" [P 0] CId NilSwallowed)) /\
  List.length C12_Table.redis_table = 101%nat /\ List.length C12_Table.kv_table = 70%nat.
Proof. repeat split; reflexivity. Qed.

(* a toy server: state = last command name; ZScore answers 7/2, Get answers redis.Nil *)
Definition toy_exec (st : string) (_ : unit) (cmd : string) (args : list val) : string * (val * err) :=
  (cmd, if String.eqb cmd "ZScore" then (VQ 7 2, ENone) else (VZero, ENil)).

Example c12_run_nonvacuous :
  let tbl := (C12_Table.plain_table ++ C12_Table.redis_table)%list in
  run tt toy_exec (fun _ => "?") (fun b : nat => (true, b)) (fun b ok => if ok then b else Datatypes.S b) ENone 3 tbl
      "ZScore" 0%nat "init" tt [VS "k"; VS "m"] = Some ((0%nat, "ZScore"), (VZ 3, ENone), Some true) /\
  run tt toy_exec (fun _ => "?") (fun b : nat => (true, b)) (fun b ok => if ok then b else Datatypes.S b) ENone 3 tbl
      "Get" 0%nat "init" tt [VS "k"] = Some ((0%nat, "Get"), (VZero, ENone), Some true) /\
  run tt toy_exec (fun _ => "?") (fun b : nat => (true, b)) (fun b ok => if ok then b else Datatypes.S b) ENone 3 tbl
      "HGet" 0%nat "init" tt [VS "k"; VS "f"] = Some ((0%nat, "HGet"), (VZero, ENil), Some true).
Proof. vm_compute. repeat split; reflexivity. Qed.

Example c12_options_nonvacuous :
  dial_config (new_w "h:1" [OTLS; OPass "a"; OCluster; OPass "b"]) = (TCluster, "h:1", "b", true) /\
  dial_config (new_redis (mkrconfig "h:2" "cluster" "pw" false)) = (TCluster, "h:2", "pw", false) /\
  bs_closed (brun [BGet "a"; BCreate; BCreate; BClose 1; BClose 0]) = [1%nat].
Proof. repeat split; reflexivity. Qed.

(* shard of key k = k mod 3, shard 1 unreachable; node state = list of deleted keys; reply = 1 *)
Example c12_multidel_partial_nonvacuous :
  let node_run := fun (n : list nat) (k : nat) (_ : unit) => (k :: n, 1%nat) in
  let res := kv_each_f node_run (fun k => Nat.modulo k 3) (fun i => Nat.eqb i 1) (fun _ => []) [1; 3; 4; 5; 6]%nat tt in
  snd res = [None; Some 1; None; Some 1; Some 1]%nat /\ fst res 0%nat = [6; 3]%nat /\ fst res 1%nat = [] /\ fst res 2%nat = [5]%nat.
Proof. vm_compute. repeat split; reflexivity. Qed.

Example c12_scriptcache_nonvacuous :
  sc_get (sc_run [] [("s1", "a"); ("s2", "b"); ("s1", "c")]) "s1" = Some "c" /\
  sc_get (sc_run [] [("s1", "a"); ("s2", "b"); ("s1", "c")]) "s3" = None.
Proof. split; reflexivity. Qed.

(* key-locality is satisfiable: one slot per key, commands replace the slot and answer the old one *)
Example c12_key_local_satisfiable :
  let node_run := fun (n : string -> nat) (k : string) (a : nat) =>
                    ((fun k' => if String.eqb k' k then a else n k'), n k) in
  forall n k a,
    snd (node_run n k a) = (fun _ _ s => s) k a (n k) /\
    fst (node_run n k a) k = (fun _ a _ => a) k a (n k) /\
    forall k', k' <> k -> fst (node_run n k a) k' = n k'.
Proof.
  intros node_run n k a. simpl. rewrite String.eqb_refl. repeat split.
  intros k' H. apply String.eqb_neq in H. rewrite H. reflexivity.
Qed.
