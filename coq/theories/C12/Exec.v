(* C12 Exec = ExecSpec (case format, spec_ok) + model_ok, which interprets the tables regenerated from the CURRENT
   source (GodGen.C12_Table, GodGen.C12_Gen). *)
From God Require Import Base.Prelude C12.Spec C12.RedisSpec.
From God Require Export C12.ExecSpec.
From GodGen Require C12_Gen C12_Table.
From Coq Require Import String.
Local Open Scope string_scope.

Definition model_ok (c : case) : bool :=
  match c_kind c with
  | 2%nat =>
      match c_phases c with
      | pn :: pc :: pd :: rest => forallb (phase_ok C12_Gen.acceptable None) (pn :: pc :: pd :: rest)
      | _ => false
      end
  | 5%nat => forallb (phase_ok C12_Gen.acceptable None) (c_phases c)
  | 3%nat => sha_model [] (c_sha c)
  | 4%nat => forallb (phase_ok C12_Gen.acceptable None) (c_phases c)
  | k => forallb (step_ok C12_Gen.acceptable k C12_Table.redis_table C12_Table.kv_table) (c_steps c) &&
         dump_eqb (c_dump_w c) (c_dump_r c)
  end.

