(* C12 Table: the vocabulary of the wrapper call table.  Both the table regenerated from the Go source
   on every run (GodGen.C12_Table, written by harness/c12gen) and the documented table
   (C12.RedisSpec, hand-reviewed) are terms of these types.  Definitions only. *)
From Coq Require Import String List ZArith Bool.
Import ListNotations.

(* argument expressions over the wrapper method's parameters (those after ctx), by position *)
Inductive aexp :=
| Ctx                          (* the ctx parameter *)
| Bg                           (* context.Background() *)
| P (i : nat)                  (* parameter i *)
| PV (i : nat)                 (* variadic parameter i, spread: p_i... *)
| Elem                         (* loop variable of `for _, x := range p_i` (kv DelCtx) *)
| Lit (s : string)             (* literal constant, Go syntax *)
| Konst (s : string)           (* package-level constant of the wrapper package, by name *)
| DurS (a : aexp)              (* time.Duration(a) * time.Second *)
| UnixS (a : aexp)             (* time.Unix(a, 0) *)
| I64 (a : aexp)               (* int64(a) *)
| F64 (a : aexp)               (* float64(a) *)
| Itoa (a : aexp)              (* strconv.FormatInt(a, 10) *)
| Mul (a b : aexp)             (* a * b *)
| Rec (ty : string) (fs : list (string * aexp))   (* &red.ty{f: a, ...} *)
| Strs (l : list aexp)         (* []string{a, ...} *)
| Loc (name : string) (defn : list string)        (* local variable built by these canonical statements *)
| Raw (s : string).            (* anything else, canonical Go text with parameters as p0,p1,... *)

(* what the wrapper does with the raw command's value v before returning it *)
Inductive conv :=
| CId                          (* returned unchanged *)
| CNone                        (* no value: only the error is returned (.Err(), or `_, err =`) *)
| CInt                         (* int(v)      : int64 -> int *)
| CI64                         (* int64(v)    : float64 -> int64, truncation toward zero *)
| CEq1                         (* v == 1 *)
| CGe1                         (* v >= 1 *)
| CEqStr (s : string)          (* v == "s" *)
| CToStrings                   (* toStrings(v): nil element -> "", string unchanged *)
| CToPairs                     (* toPairs(v) : Z{Score,Member} -> Pair{Member, int64(Score)} *)
| CDurSec                      (* int(v / time.Second) *)
| CIdx1                        (* len(v) < 2 => error, else v[1]            (BLPop) *)
| CIdx1Ok                      (* as CIdx1 plus a success flag               (BLPopEx) *)
| COther (s : string).         (* unrecognised; canonical text, $ = raw value *)

(* what the wrapper does with the raw command's error *)
Inductive nilpol :=
| NilReturned                  (* every error, redis.Nil included, is returned as is *)
| NilSwallowed                 (* redis.Nil => zero value and nil error; other errors returned *)
| AllErrSwallowed.             (* every error => zero value, nil error (Ping) *)

Inductive nodesrc :=
| NodeGetRedis                 (* node, err := getRedis(r); if err != nil { return err } *)
| NodeParam (i : nat).         (* the caller supplies the node; nil => ErrNilNode *)

Inductive guard :=
| NoGuard
| GLe0 (a : aexp)              (* if a <= 0 { return nil }  before anything else *)
| GOther (s : string).

Record cmdrow := mkcmd {
  r_wrapped : bool;            (* body runs inside r.brk.DoWithAcceptable(..., acceptable) *)
  r_node : nodesrc;
  r_guard : guard;
  r_cmd : string;              (* go-redis method called on the node *)
  r_args : list aexp;          (* its arguments after ctx *)
  r_conv : conv;
  r_nil : nilpol
}.

Inductive row :=
| Cmd (name : string) (params : list string) (c : cmdrow)
| Deleg (name : string) (params : list string) (target : string) (args : list aexp)
| Other (name : string) (what : string)            (* exported non-command method, e.g. String *)
| Unknown (name : string) (reason : string).

(* kv.Store *)
Inductive kvrow :=
| KV (name : string) (params : list string) (dispatch : aexp) (target : string) (args : list aexp)
| KVEach (name : string) (params : list string) (over : nat) (dispatch : aexp) (target : string) (args : list aexp)
      (* for each element of variadic parameter `over`: dispatch on it, call target, sum the results,
         collect the errors (DelCtx) *)
| KVDeleg (name : string) (params : list string) (target : string) (args : list aexp)
| KVUnknown (name : string) (reason : string).

Definition row_name (r : row) : string :=
  match r with Cmd n _ _ | Deleg n _ _ _ | Other n _ | Unknown n _ => n end.
Definition kvrow_name (r : kvrow) : string :=
  match r with KV n _ _ _ _ | KVEach n _ _ _ _ _ | KVDeleg n _ _ _ | KVUnknown n _ => n end.

(* clientmanager.go / clustermanager.go: how the go-redis client of an address comes to be *)
Inductive clientrow :=
| ClientNew (fn manager key ctor ty : string)
            (fresh : bool)                       (* the options are a literal &red.ty{...} written at the call, inside the
                                                    create function: each client owns the options it was created with *)
            (fields : list (string * string))    (* option field |-> expression over the wrapper instance r *)
            (hooks rest : list string)           (* hooks added; the other statements of the create function *)
| ClientUnknown (fn reason : string).
