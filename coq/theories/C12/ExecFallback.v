(* C12 ExecFallback: used instead of Exec when the regenerated GodGen.C12_Gen no longer compiles (e.g. `acceptable`
   mentions something outside the GoLite environment): no model of the current source is available, so every case
   counts as a model mismatch; spec_ok is the one of ExecSpec. *)
From God Require Export C12.ExecSpec.
Definition model_ok (c : case) : bool := false.
