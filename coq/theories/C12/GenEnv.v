(* C12 GenEnv: the environment the gogen translation of `acceptable` (lib/store/redis/redis.go) is read in.
   Go errors are abstracted to the classes the property distinguishes. *)
From Coq Require Import String Bool.

Inductive err :=
| ENone                 (* nil *)
| ENil                  (* redis.Nil: key / member absent *)
| ECanceled             (* context.Canceled *)
| EUnavailable          (* breaker.ErrServiceUnavailable: the call was rejected by the breaker *)
| EOther (msg : string). (* everything else: connection-level failures, server errors, ... *)

Definition err_eqb (a b : err) : bool :=
  match a, b with
  | ENone, ENone | ENil, ENil | ECanceled, ECanceled | EUnavailable, EUnavailable => true
  | EOther x, EOther y => String.eqb x y
  | _, _ => false
  end.

Lemma err_eqb_eq a b : err_eqb a b = true <-> a = b.
Proof.
  destruct a, b; simpl; split; intro H; try discriminate; try reflexivity.
  - apply String.eqb_eq in H. congruence.
  - inversion H. apply String.eqb_refl.
Qed.

(* names used by gogen's GoLite output *)
Definition go_value := err.
Definition go_nil : go_value := ENone.
Definition red_Nil : go_value := ENil.
Definition context_Canceled : go_value := ECanceled.
Definition go_eqb : go_value -> go_value -> bool := err_eqb.
