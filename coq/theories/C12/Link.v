(* C12 Link: the definitions regenerated from the repository on every run (GodGen.C12_Gen by gogen,
   GodGen.C12_Table by harness/c12gen) are the ones the model, the documented table and the property
   statement speak of.  Any behaviour-changing edit of redis.go / store.go changes a generated row
   and breaks this file (and Props.c12_table_ok). *)
From God Require Import Base.Prelude C12.GenEnv C12.Table C12.Model C12.Spec C12.RedisSpec C12.Proofs.
From GodGen Require C12_Gen C12_Table.
From Coq Require Import String.
Local Open Scope string_scope.

(* --- constants --- *)
Lemma link_NodeType : C12_Gen.NodeType = "node". Proof. reflexivity. Qed.
Lemma link_ClusterType : C12_Gen.ClusterType = "cluster". Proof. reflexivity. Qed.
Lemma link_blockingQueryTimeout : C12_Gen.blockingQueryTimeout = (5 * 1000000000)%Z. Proof. reflexivity. Qed.
Lemma link_readWriteTimeout : C12_Gen.readWriteTimeout = (2 * 1000000000)%Z. Proof. reflexivity. Qed.
Lemma link_defaultSlowThreshold : C12_Gen.defaultSlowThreshold = (100 * 1000000)%Z. Proof. reflexivity. Qed.
Lemma link_defaultDatabase : C12_Gen.defaultDatabase = 0%Z. Proof. reflexivity. Qed.
Lemma link_maxRetries : C12_Gen.maxRetries = 3%Z. Proof. reflexivity. Qed.
Lemma link_idleConns : C12_Gen.idleConns = 8%Z. Proof. reflexivity. Qed.

(* --- acceptable: the generated function is the model's, for every error --- *)
Lemma link_acceptable : forall e, C12_Gen.acceptable e = Model.acceptable e.
Proof. intros []; reflexivity. Qed.

Lemma link_acceptable_body : C12_Gen.acceptable_calls = ["return"].
Proof. reflexivity. Qed.

(* --- getRedis: node type -> client manager; kv dispatch; multi-key delete skeleton --- *)
Lemma link_getRedis_cases :
  C12_Gen.getRedis_cases = [(["ClusterType"], "getCluster(r)"); (["NodeType"], "getClient(r)"); ([], "?")].
Proof. reflexivity. Qed.

Lemma link_kv_getRedis : C12_Gen.kv_getRedis_calls = ["s.dispatcher.Get"; "return"; "return"].
Proof. reflexivity. Qed.

Lemma link_kv_DelCtx :
  C12_Gen.kv_DelCtx_calls = ["s.getRedis"; "be.Add"; "node.DelCtx"; "be.Add"; "be.Err"; "return"].
Proof. reflexivity. Qed.

Lemma link_kv_New :
  C12_Gen.kv_New_calls = ["len"; "cache.TotalWeights"; "log.Fatal"; "hash.NewConsistentHash"; "cfg.NewRedis";
                          "dispatcher.AddWithWeight"; "return"].
Proof. reflexivity. Qed.

(* --- the call tables --- *)
Lemma link_redis_table : C12_Table.redis_table = redis_spec.
Proof. reflexivity. Qed.

Lemma link_kv_table : C12_Table.kv_table = kv_spec.
Proof. reflexivity. Qed.

Definition is_unknown (r : row) : bool := match r with Unknown _ _ => true | _ => false end.
Definition is_kvunknown (r : kvrow) : bool := match r with KVUnknown _ _ => true | _ => false end.

Lemma link_all_classified :
  existsb is_unknown (C12_Table.redis_table ++ C12_Table.plain_table) = false /\
  existsb is_kvunknown (C12_Table.kv_table ++ C12_Table.kv_plain_table) = false.
Proof. split; reflexivity. Qed.

Lemma link_plain_rule : forallb (plain_ok C12_Table.redis_table) C12_Table.plain_table = true.
Proof. vm_compute. reflexivity. Qed.

Lemma link_plain_complete : forallb (has_plain C12_Table.plain_table) C12_Table.redis_table = true.
Proof. vm_compute. reflexivity. Qed.

Lemma link_kv_plain_rule : forallb (kv_plain_ok C12_Table.kv_table) C12_Table.kv_plain_table = true.
Proof. vm_compute. reflexivity. Qed.

(* --- every kv method dispatches on the key its go-redis command operates on, and the redis method it
       calls is breaker-guarded --- *)
Definition key_pos (cmd : string) : nat :=
  if String.eqb cmd "Eval" || String.eqb cmd "EvalSha" then 1%nat else 0%nat.

Definition key_eqb (a d : aexp) : bool :=
  match a, d with
  | P i, P j => Nat.eqb i j
  | Elem, Elem => true
  | Strs [P i], P j => Nat.eqb i j         (* KEYS = [key] *)
  | _, _ => false
  end.

Definition kv_target_ok (rt : list row) (d : aexp) (target : string) (args : list aexp) : bool :=
  match args with
  | Ctx :: actuals =>
      match find (fun x => String.eqb (row_name x) target) rt with
      | Some (Cmd _ _ c) =>
          r_wrapped c &&
          match nth (key_pos (r_cmd c)) (r_args c) Bg with
          | P j | PV j => key_eqb (nth j actuals Bg) d
          | _ => false
          end
      | _ => false
      end
  | _ => false
  end.

Definition kv_entry_ok (rt : list row) (kt : list kvrow) (r : kvrow) : bool :=
  match r with
  | KV _ _ d target args => kv_target_ok rt d target args
  | KVEach _ _ _ d target args => kv_target_ok rt d target args
  | KVDeleg _ _ target (Ctx :: _) => existsb (fun x => String.eqb (kvrow_name x) target) kt
  | _ => false
  end.

Lemma link_kv_dispatch :
  forallb (kv_entry_ok C12_Table.redis_table C12_Table.kv_table) C12_Table.kv_table = true.
Proof. vm_compute. reflexivity. Qed.

(* --- breaker column --- *)
Definition unguarded : list string := ["BLPopExCtx"; "BLPopWithTimeoutCtx"; "ScriptLoadCtx"].

Definition guarded_ok (r : row) : bool :=
  match r with
  | Cmd name _ c => r_wrapped c || existsb (String.eqb name) unguarded
  | Deleg _ _ _ _ => true
  | _ => false
  end.

Lemma link_guarded : forallb guarded_ok C12_Table.redis_table = true.
Proof. vm_compute. reflexivity. Qed.

Definition swallows (r : row) : bool :=
  match r with Cmd _ _ c => match r_nil c with NilSwallowed => true | _ => false end | _ => false end.

Lemma link_nil_swallowers : map row_name (filter swallows C12_Table.redis_table) = ["GetCtx"; "GetSetCtx"].
Proof. reflexivity. Qed.

(* names are unique, so `find_row` finds THE row of a method *)
Fixpoint nodup_str (l : list string) : bool :=
  match l with [] => true | a :: r => negb (existsb (String.eqb a) r) && nodup_str r end.

Lemma link_names_unique :
  nodup_str (map row_name (C12_Table.plain_table ++ C12_Table.redis_table)) = true /\
  nodup_str (map kvrow_name (C12_Table.kv_plain_table ++ C12_Table.kv_table)) = true.
Proof. split; vm_compute; reflexivity. Qed.

(* --- round 2: client managers, script cache, ctx passed on by every kv method --- *)
Lemma link_client_table : C12_Table.client_table = client_spec.
Proof. reflexivity. Qed.

Definition client_fresh (r : clientrow) : bool :=
  match r with
  | ClientNew _ _ key _ _ fresh fields _ _ =>
      fresh && String.eqb key "r.Addr" &&
      existsb (fun f => (String.eqb (fst f) "Addr" && String.eqb (snd f) "r.Addr") ||
                        (String.eqb (fst f) "Addrs" && String.eqb (snd f) "[ ] string { r.Addr }")) fields
  | ClientUnknown _ _ => false
  end.

Lemma link_client_fresh : forallb client_fresh C12_Table.client_table = true.
Proof. vm_compute. reflexivity. Qed.

Lemma link_getClient_calls :
  C12_Gen.getClient_calls = ["red.NewClient"; "client.AddHook"; "return"; "clientManager.Get"; "return"; "return"] /\
  C12_Gen.getCluster_calls = ["red.NewClusterClient"; "client.AddHook"; "return"; "clusterManager.Get"; "return"; "return"].
Proof. split; reflexivity. Qed.

Lemma link_scriptcache_table : C12_Table.scriptcache_table = scriptcache_spec.
Proof. reflexivity. Qed.

Lemma link_scriptcache_calls :
  C12_Gen.sc_GetSha_calls = ["c.Load"; "return"] /\
  C12_Gen.sc_SetSha_calls = ["lock.Lock"; "defer:lock.Unlock"; "c.Load"; "make"; "c.Store"].
Proof. split; reflexivity. Qed.

(* a kv context-form method hands ITS ctx to a context-form method of the wrapper (or of the store) *)
Definition ends_ctx (s : string) : bool :=
  let n := String.length s in String.eqb (String.substring (n - 3) 3 s) "Ctx".

Definition kv_ctx_ok (rt : list row) (r : kvrow) : bool :=
  match r with
  | KV _ _ _ target (Ctx :: _) | KVEach _ _ _ _ target (Ctx :: _) =>
      ends_ctx target && existsb (fun x => String.eqb (row_name x) target) rt
  | KVDeleg _ _ target (Ctx :: _) => ends_ctx target
  | _ => false
  end.

Lemma link_kv_ctx : forallb (kv_ctx_ok C12_Table.redis_table) C12_Table.kv_table = true.
Proof. vm_compute. reflexivity. Qed.

Lemma link_eval_rows :
  find_row C12_Table.redis_table "EvalCtx" =
    Some (Cmd "EvalCtx" ["string"; "[]string"; "...any"] (mkcmd true NodeGetRedis NoGuard "Eval" [P 0; P 1; PV 2] CId NilReturned)) /\
  find_row C12_Table.redis_table "EvalShaCtx" =
    Some (Cmd "EvalShaCtx" ["string"; "[]string"; "...any"] (mkcmd true NodeGetRedis NoGuard "EvalSha" [P 0; P 1; PV 2] CId NilReturned)).
Proof. split; reflexivity. Qed.

(* --- round 4: construction (options, Config.NewRedis, getRedis, blocking nodes, kv.New) --- *)
Lemma link_construction_table : C12_Table.construction_table = construction_spec.
Proof. reflexivity. Qed.

(* the blocking node's client gets the instance's TLS setting: the tlsConfig built from r.tls reaches BOTH option
   literals of CreateBlockingNode (node and cluster branch) *)
Definition has (sub s : string) : bool := match String.index 0 sub s with Some _ => true | None => false end.

Definition blocking_tls_ok (rows : list (string * list string)) : bool :=
  match find (fun r => String.eqb (fst r) "CreateBlockingNode") rows with
  | Some (_, body) =>
      existsb (String.eqb "if p0.tls { tlsConfig = & tls.Config { InsecureSkipVerify : true } ; }") body &&
      existsb (fun st => has "red.NewClient ( & red.Options { Addr : p0.Addr , Password : p0.Pass ," st &&
                         has "ReadTimeout : timeout , TLSConfig : tlsConfig , } ) ; return & clientBridge { client }" st &&
                         has "red.NewClusterClient ( & red.ClusterOptions { Addrs : [ ] string { p0.Addr } , Password : p0.Pass ," st &&
                         has "ReadTimeout : timeout , TLSConfig : tlsConfig , } ) ; return & clusterBridge { client }" st) body
  | None => false
  end.

Lemma link_blocking_tls : blocking_tls_ok C12_Table.construction_table = true.
Proof. vm_compute. reflexivity. Qed.

(* the only method that swallows every error (and so never reports a failure to the breaker) is PingCtx *)
Definition swallows_all (r : row) : bool :=
  match r with Cmd _ _ c => match r_nil c with AllErrSwallowed => true | _ => false end | _ => false end.

Lemma link_all_err_swallowers : map row_name (filter swallows_all C12_Table.redis_table) = ["PingCtx"].
Proof. reflexivity. Qed.

(* --- round 7: label arity of the metrics hook --- *)
Lemma link_metrics_table : C12_Table.metrics_table = metrics_spec.
Proof. reflexivity. Qed.

Definition arity_ok (r : string * nat * list nat) : bool :=
  match r with (_, n, uses) => forallb (Nat.eqb n) uses end.

Lemma link_metrics_arity : forallb arity_ok C12_Table.metrics_table = true.
Proof. vm_compute. reflexivity. Qed.
