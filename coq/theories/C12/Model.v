(* C12 Model: what a row of the wrapper call table MEANS -- an executable transcription of the one
   shape all methods of lib/store/redis/redis.go have, driven by the row (which c12gen regenerates
   from the source on every run), over an arbitrary server semantics `exec`.  Definitions only.

     func (r *Redis) XxxCtx(ctx, p0, p1, ...) (val T, err error) {          redis.go:97-2387
         err = r.brk.DoWithAcceptable(func() error {                        googlebreaker.go:64-90
             [if guard { return nil }]
             node, err := getRedis(r); if err != nil { return err }         redis.go:2416-2425
             v, err := node.Yyy(ctx, placed args...).Result()
             [redis.Nil => return nil]  if err != nil { return err }
             val = conv(v); return nil
         }, acceptable)                                                     redis.go:2428-2430
         return
     }
   kv.kvStore.XxxCtx(ctx, key, ...): node := dispatcher.Get(key); node.XxxCtx(ctx, key, ...)   store.go *)
From God Require Import Base.Prelude C12.GenEnv C12.Table.
From Coq Require Import String DecimalString.
Local Open Scope string_scope.

(* ---- Go values, as far as the wrapper looks into them ---- *)
Inductive val :=
| VZero                         (* the zero value of the static result type ("", 0, false, nil slice) *)
| VBad                          (* ill-typed use; cannot arise from well-typed Go *)
| VNilI                         (* a nil interface value (element of MGet/HMGet replies, nil Node) *)
| VZ (z : Z)
| VB (b : bool)
| VS (s : string)
| VQ (n : Z) (d : positive)     (* a float64, by its exact rational value *)
| VDur (ns : Z)                 (* time.Duration *)
| VTime (sec : Z)               (* time.Unix(sec, 0) *)
| VL (l : list val)
| VRec (ty : string) (fs : list (string * val))
| VOpaque (tag : string) (l : list val).   (* literals, constants, locals: a tag applied to values *)

Fixpoint val_eqb (a b : val) {struct a} : bool :=
  match a, b with
  | VZero, VZero | VBad, VBad | VNilI, VNilI => true
  | VZ x, VZ y => Z.eqb x y
  | VB x, VB y => Bool.eqb x y
  | VS x, VS y => String.eqb x y
  | VQ n d, VQ n' d' => Z.eqb n n' && Pos.eqb d d'
  | VDur x, VDur y => Z.eqb x y
  | VTime x, VTime y => Z.eqb x y
  | VL l, VL l' =>
      (fix go (l l' : list val) : bool :=
         match l, l' with
         | [], [] => true
         | x :: r, y :: r' => val_eqb x y && go r r'
         | _, _ => false
         end) l l'
  | VRec t fs, VRec t' fs' =>
      String.eqb t t' &&
      (fix go (l l' : list (string * val)) : bool :=
         match l, l' with
         | [], [] => true
         | (f, x) :: r, (f', y) :: r' => String.eqb f f' && val_eqb x y && go r r'
         | _, _ => false
         end) fs fs'
  | VOpaque t l, VOpaque t' l' =>
      String.eqb t t' &&
      (fix go (l l' : list val) : bool :=
         match l, l' with
         | [], [] => true
         | x :: r, y :: r' => val_eqb x y && go r r'
         | _, _ => false
         end) l l'
  | _, _ => false
  end.

Definition string_of_Z (z : Z) : string := NilZero.string_of_int (Z.to_int z).

(* ---- argument placement: the value of an argument expression for actual parameters `args` ---- *)
Fixpoint eval1 (args : list val) (a : aexp) {struct a} : val :=
  match a with
  | Ctx | Bg | Elem => VBad
  | P i | PV i => nth i args VBad
  | Lit s => VOpaque ("lit " ++ s) []
  | Konst s => VOpaque ("const " ++ s) []
  | DurS x => match eval1 args x with VZ z => VDur (z * 1000000000) | _ => VBad end
  | UnixS x => match eval1 args x with VZ z => VTime z | _ => VBad end
  | I64 x => match eval1 args x with VZ z => VZ z | _ => VBad end
  | F64 x => match eval1 args x with VZ z => VQ z 1 | _ => VBad end
  | Itoa x => match eval1 args x with VZ z => VS (string_of_Z z) | _ => VBad end
  | Mul x y => match eval1 args x, eval1 args y with VZ p, VZ q => VZ (p * q) | _, _ => VBad end
  | Rec ty fs => VRec ty (map (fun fa => match fa with (f, x) => (f, eval1 args x) end) fs)
  | Strs l => VL (map (eval1 args) l)
  | Loc n d => VOpaque (n ++ " := " ++ String.concat "; " d) args
  | Raw s => VOpaque s args
  end.

(* the go-redis call's argument list: variadic parameters are spread *)
Definition place1 (args : list val) (a : aexp) : list val :=
  match a with
  | PV i => match nth i args VBad with VL l => l | VZero => [] | _ => [VBad] end
  | _ => [eval1 args a]
  end.
Definition place (args : list val) (l : list aexp) : list val := flat_map (place1 args) l.

(* ---- result conversion ---- *)
Section Conv.
  Variable repr : val -> string.      (* mapping.Repr, for reply elements that are neither string nil *)

  Definition trunc (v : val) : val :=
    match v with VQ n d => VZ (Z.quot n (Zpos d)) | VZero => VZ 0 | _ => VBad end.

  Definition to_string1 (v : val) : val :=           (* redis.go:2453-2469 *)
    match v with VNilI => VS "" | VS s => VS s | x => VS (repr x) end.

  Definition field (f : string) (fs : list (string * val)) : val :=
    match alookup String.eqb f fs with Some v => v | None => VBad end.

  Definition to_pair1 (v : val) : val :=             (* redis.go:2433-2451 *)
    match v with
    | VRec _ fs => VRec "Pair" [("Member", match field "Member" fs with VS s => VS s | x => VS (repr x) end);
                                ("Score", trunc (field "Score" fs))]
    | _ => VBad
    end.

  Definition seq_of (v : val) : option (list val) :=
    match v with VL l => Some l | VZero => Some [] | _ => None end.

  (* value and error produced from the raw value v of a successful command *)
  Definition apply_conv (c : conv) (v : val) : val * err :=
    match c with
    | CId => (v, ENone)
    | CNone => (VZero, ENone)
    | CInt => (match v with VZ z => VZ z | VZero => VZ 0 | _ => VBad end, ENone)
    | CI64 => (trunc v, ENone)
    | CEq1 => (match v with VZ z => VB (Z.eqb z 1) | VZero => VB false | _ => VBad end, ENone)
    | CGe1 => (match v with VZ z => VB (Z.leb 1 z) | VZero => VB false | _ => VBad end, ENone)
    | CEqStr s => (match v with VS x => VB (String.eqb x s) | VZero => VB false | _ => VBad end, ENone)
    | CToStrings => (match seq_of v with Some l => VL (map to_string1 l) | None => VBad end, ENone)
    | CToPairs => (match seq_of v with Some l => VL (map to_pair1 l) | None => VBad end, ENone)
    | CDurSec => (match v with VDur ns => VZ (Z.quot ns 1000000000) | VZero => VZ 0 | _ => VBad end, ENone)
    | CIdx1 => match seq_of v with
               | Some (_ :: x :: _) => (x, ENone)
               | Some _ => (VZero, EOther "no element to pop")
               | None => (VBad, ENone)
               end
    | CIdx1Ok => match seq_of v with
                 | Some (_ :: x :: _) => (VL [x; VB true], ENone)
                 | Some _ => (VZero, EOther "no element to pop")
                 | None => (VBad, ENone)
                 end
    | COther _ => (VBad, ENone)
    end.

  (* what the body returns once the command has answered (v, e) *)
  Definition tail (c : cmdrow) (v : val) (e : err) : val * err :=
    match e with
    | ENone => apply_conv (r_conv c) v
    | _ =>
        (* `val, err = ....Result()` assigns val even on error; rows that copy `val = v` after the error
           check return the zero value instead -- the same thing, since go-redis hands out the zero value
           with every error (hypothesis raw_err_zero of the theorems) *)
        let keep := match r_conv c with CId => v | _ => VZero end in
        match r_nil c with
        | AllErrSwallowed => (VB false, ENone)
        | NilSwallowed => if err_eqb e ENil then (keep, ENone) else (keep, e)
        | NilReturned => (keep, e)
        end
    end.
End Conv.

(* redis.go:2428-2430 *)
Definition acceptable (e : err) : bool :=
  match e with ENone | ENil | ECanceled => true | _ => false end.

Definition guard_holds (g : guard) (args : list val) : bool :=
  match g with
  | NoGuard => false
  | GLe0 a => match eval1 args a with VZ z => Z.leb z 0 | _ => false end
  | GOther _ => false
  end.

Section Wrapper.
  Variables S C B : Type.
  Variable bg : C.                                          (* context.Background() *)
  Variable exec : S -> C -> string -> list val -> S * (val * err).   (* go-redis method on a node *)
  Variable repr : val -> string.
  Variable accept : B -> bool * B.                          (* googleBreaker.accept, random draw included *)
  Variable mark : B -> bool -> B.                           (* markSuccess / markFailure *)
  Variable gerr : err.                                      (* what getRedis(r) fails with (ENone: it does not) *)

  (* the body (closure, or whole method when unwrapped) *)
  Definition body (c : cmdrow) (st : S) (ctx : C) (args : list val) : S * (val * err) :=
    if guard_holds (r_guard c) args then (st, (VZero, ENone)) else
    let node_err :=
      match r_node c with
      | NodeGetRedis => gerr
      | NodeParam i => match nth i args VBad with VNilI => EOther "ErrNilNode" | _ => ENone end
      end in
    match node_err with
    | ENone =>
        let '(st', (v, e)) := exec st ctx (r_cmd c) (place args (r_args c)) in
        (st', tail repr c v e)
    | ne => (st, match r_nil c with AllErrSwallowed => (VB false, ENone) | _ => (VZero, ne) end)
    end.

  (* observable of one call: new breaker and server state, result, and what the breaker was told *)
  Definition run_cmd (c : cmdrow) (b : B) (st : S) (ctx : C) (args : list val) : (B * S) * (val * err) * option bool :=
    if r_wrapped c then
      let '(ok, b1) := accept b in
      if ok then
        let '(st', (v, e)) := body c st ctx args in
        ((mark b1 (acceptable e), st'), (v, e), Some (acceptable e))
      else
        ((b1, st), (match r_nil c with AllErrSwallowed => (VB false, ENone) | _ => (VZero, EUnavailable) end), None)
    else
      let '(st', r) := body c st ctx args in ((b, st'), r, None).

  Definition find_row (tbl : list row) (name : string) : option row :=
    find (fun r => String.eqb (row_name r) name) tbl.

  (* a method of the table by name; Deleg rows are followed (fuel bounds the chain) *)
  Fixpoint run (fuel : nat) (tbl : list row) (name : string) (b : B) (st : S) (ctx : C) (args : list val)
    : option ((B * S) * (val * err) * option bool) :=
    match fuel with
    | O => None
    | Datatypes.S fuel' =>
        match find_row tbl name with
        | Some (Cmd _ _ c) => Some (run_cmd c b st ctx args)
        | Some (Deleg _ _ target (c0 :: rest)) =>
            let ctx' := match c0 with Bg => bg | _ => ctx end in
            run fuel' tbl target b st ctx' (map (eval1 args) rest)
        | _ => None
        end
    end.
End Wrapper.

(* ---- kv.Store over n wrapper instances ---- *)
Section KV.
  Variables N K A R : Type.                 (* node state, key, remaining arguments, reply *)
  Variable node_run : N -> K -> A -> N * R.  (* the wrapper method on one node *)
  Variable owner : K -> nat.                 (* dispatcher.Get: total and deterministic (C13) *)

  Definition cluster := nat -> N.
  Definition upd (cl : cluster) (i : nat) (n : N) : cluster := fun j => if Nat.eqb j i then n else cl j.

  (* KV rows: store.go `node, err := s.getRedis(key); ...; return node.XxxCtx(ctx, key, ...)` *)
  Definition kv_step (cl : cluster) (k : K) (a : A) : cluster * R :=
    let '(n', r) := node_run (cl (owner k)) k a in (upd cl (owner k) n', r).

  (* KVEach rows: store.go DelCtx -- one single-key call per named key, results collected *)
  Fixpoint kv_each (cl : cluster) (ks : list K) (a : A) : cluster * list R :=
    match ks with
    | [] => (cl, [])
    | k :: r => let '(cl1, x) := kv_step cl k a in let '(cl2, xs) := kv_each cl1 r a in (cl2, x :: xs)
    end.

  (* the same loop when some shards are unreachable: `node.DelCtx` fails for their keys (no effect there), the error
     is collected (`be.Add(e)`) and the loop goes on with the next key *)
  Variable down : nat -> bool.
  Fixpoint kv_each_f (cl : cluster) (ks : list K) (a : A) : cluster * list (option R) :=
    match ks with
    | [] => (cl, [])
    | k :: r =>
        if down (owner k) then let '(cl2, xs) := kv_each_f cl r a in (cl2, None :: xs)
        else let '(cl1, x) := kv_step cl k a in let '(cl2, xs) := kv_each_f cl1 r a in (cl2, Some x :: xs)
    end.
End KV.

(* ---- clientmanager.go / clustermanager.go: one go-redis client per address ----
   getClient(r): clientManager.Get(r.Addr, create) -- the resource manager returns the client cached under
   r.Addr or runs `create`, which builds the client from a FRESH options literal filled from r.  The options
   a client dials with are therefore values captured at its creation. *)
Record rinst := mkrinst { i_addr : string; i_pass : string; i_tls : bool }.     (* the fields of *Redis that matter *)
Record copts := mkopts { o_addr : string; o_pass : string; o_tls : bool }.      (* red.Options of a client *)
Definition cmgr := list (string * copts).                                       (* syncx.ResourceManager: key |-> client *)

Definition new_client (r : rinst) : copts := mkopts (i_addr r) (i_pass r) (i_tls r).   (* clientmanager.go:26-33 *)

Definition cm_get (m : cmgr) (r : rinst) : cmgr * copts :=                      (* resourcemanager.go Get *)
  match alookup String.eqb (i_addr r) m with
  | Some c => (m, c)
  | None => ((i_addr r, new_client r) :: m, new_client r)
  end.

Section Net.
  Variables S Cmd R : Type.
  Variable exec1 : S -> Cmd -> S * R.
  Definition net := string -> S.                                                (* address |-> server *)

  (* a command on a client goes to the address in the client's options -- also when it has to re-dial *)
  Definition send (n : net) (c : copts) (cmd : Cmd) : net * R :=
    let '(s', x) := exec1 (n (o_addr c)) cmd in
    ((fun a => if String.eqb a (o_addr c) then s' else n a), x).

  (* one wrapper call: getRedis(r) then the command on that node *)
  Definition wcall (st : cmgr * net) (r : rinst) (cmd : Cmd) : (cmgr * net) * R :=
    let '(m', c) := cm_get (fst st) r in
    let '(n', x) := send (snd st) c cmd in ((m', n'), x).

  Fixpoint wcalls (st : cmgr * net) (h : list (rinst * Cmd)) : (cmgr * net) * list R :=
    match h with
    | [] => (st, [])
    | (r, cmd) :: t => let '(st1, x) := wcall st r cmd in let '(st2, xs) := wcalls st1 t in (st2, x :: xs)
    end.
End Net.
Arguments send {S Cmd R} exec1 n c cmd.
Arguments wcall {S Cmd R} exec1 st r cmd.
Arguments wcalls {S Cmd R} exec1 st h.

(* ---- scriptcache.go: script text |-> sha, copy-on-write map behind an atomic.Value ---- *)
Definition scache := list (string * string).
Definition sc_get (c : scache) (script : string) : option string := alookup String.eqb script c.   (* GetSha *)
Definition sc_set (c : scache) (script sha : string) : scache := aset String.eqb script sha c.     (* SetSha: copy, then newCache[script] = sha *)
Definition sc_run (c : scache) (h : list (string * string)) : scache :=
  fold_left (fun m p => sc_set m (fst p) (snd p)) h c.

(* ---- redis.go New / WithCluster / WithPass / WithTLS, config.go Config.NewRedis ---- *)
Inductive rtype := TNode | TCluster.
Record winst := mkw { w_addr : string; w_type : rtype; w_pass : string; w_tls : bool }.
Inductive wopt := OCluster | OPass (p : string) | OTLS.

Definition apply_opt (r : winst) (o : wopt) : winst :=
  match o with
  | OCluster => mkw (w_addr r) TCluster (w_pass r) (w_tls r)          (* redis.go WithCluster *)
  | OPass p => mkw (w_addr r) (w_type r) p (w_tls r)                  (* redis.go WithPass *)
  | OTLS => mkw (w_addr r) (w_type r) (w_pass r) true                 (* redis.go WithTLS *)
  end.

Definition new_w (addr : string) (opts : list wopt) : winst :=         (* redis.go New *)
  fold_left apply_opt opts (mkw addr TNode "" false).

Record rconfig := mkrconfig { c_host : string; c_type : string; c_pass : string; c_tls : bool }.

Definition new_redis (c : rconfig) : winst :=                          (* config.go NewRedis *)
  new_w (c_host c)
        ((if String.eqb (c_type c) "cluster" then [OCluster] else []) ++
         (if Nat.ltb 0 (String.length (c_pass c)) then [OPass (c_pass c)] else []) ++
         (if c_tls c then [OTLS] else [])).

(* what the go-redis client of the instance is configured with (clientmanager.go / clustermanager.go):
   kind of client, address, password, TLS *)
Definition dial_config (w : winst) : rtype * string * string * bool := (w_type w, w_addr w, w_pass w, w_tls w).

(* blockingnode.go CreateBlockingNode: a NEW client (dedicated connection) for r's type, address, password and --
   since 10db6ba -- TLS setting *)
Definition blocking_config (w : winst) : rtype * string * string * bool := (w_type w, w_addr w, w_pass w, w_tls w).

(* ---- blockingnode.go: CreateBlockingNode / Close.  Clients are identified by a serial number. ---- *)
Inductive bop := BGet (addr : string) | BCreate | BClose (id : nat).
Record bst := mkbst { bs_next : nat;
                      bs_mgr : list (string * nat);     (* pooled clients of the manager, by address *)
                      bs_nodes : list nat;              (* blocking nodes handed out *)
                      bs_closed : list nat }.           (* clients that were closed *)
Definition bstep (s : bst) (o : bop) : bst :=
  match o with
  | BGet a => match alookup String.eqb a (bs_mgr s) with
              | Some _ => s
              | None => mkbst (S (bs_next s)) ((a, bs_next s) :: bs_mgr s) (bs_nodes s) (bs_closed s)
              end
  | BCreate => mkbst (S (bs_next s)) (bs_mgr s) (bs_next s :: bs_nodes s) (bs_closed s)    (* a NEW client *)
  | BClose id => if existsb (Nat.eqb id) (bs_nodes s)
                 then mkbst (bs_next s) (bs_mgr s) (bs_nodes s) (id :: bs_closed s)         (* closes that client only *)
                 else s
  end.
Definition brun (h : list bop) : bst := fold_left bstep h (mkbst 0 [] [] []).

Arguments upd {N} cl i n.
Arguments kv_step {N K A R} node_run owner cl k a.
Arguments kv_each {N K A R} node_run owner cl ks a.
Arguments kv_each_f {N K A R} node_run owner down cl ks a.
Arguments body {S C} exec repr gerr c st ctx args.
Arguments run_cmd {S C B} exec repr accept mark gerr c b st ctx args.
Arguments run {S C B} bg exec repr accept mark gerr fuel tbl name b st ctx args.
