(* C12 Proofs. *)
From God Require Import Base.Prelude C12.GenEnv C12.Table C12.Model C12.Spec C12.RedisSpec.
From Coq Require Import String.
Local Open Scope string_scope.

(* ------------------------------------------------------------------ transparency of one row *)
Section Transparency.
  Variables S C B : Type.
  Variable bg : C.
  Variable exec : S -> C -> string -> list val -> S * (val * err).
  Variable repr : val -> string.
  Variable accept : B -> bool * B.
  Variable mark : B -> bool -> B.

  Lemma tail_spec c v e : (e <> ENone -> v = VZero) -> tail repr c v e = spec_result repr c (v, e).
  Proof.
    intro H. unfold tail, spec_result. destruct e; try reflexivity.
    - rewrite (H ltac:(discriminate)). destruct (r_nil c), (r_conv c); reflexivity.
    - rewrite (H ltac:(discriminate)). destruct (r_nil c), (r_conv c); reflexivity.
    - rewrite (H ltac:(discriminate)). destruct (r_nil c), (r_conv c); reflexivity.
    - rewrite (H ltac:(discriminate)). destruct (r_nil c), (r_conv c); reflexivity.
  Qed.

  Definition node_ok (c : cmdrow) (args : list val) : Prop :=
    match r_node c with NodeGetRedis => True | NodeParam i => nth i args VBad <> VNilI end.

  Lemma body_spec c st ctx args :
    guard_holds (r_guard c) args = false -> node_ok c args ->
    let raw := exec st ctx (r_cmd c) (place args (r_args c)) in
    (snd (snd raw) <> ENone -> fst (snd raw) = VZero) ->
    body exec repr ENone c st ctx args = (fst raw, spec_result repr c (snd raw)).
  Proof.
    intros Hg Hn raw Hz. unfold body. rewrite Hg.
    assert (E : match r_node c with
                | NodeGetRedis => ENone
                | NodeParam i => match nth i args VBad with VNilI => EOther "ErrNilNode" | _ => ENone end
                end = ENone).
    { unfold node_ok in Hn. destruct (r_node c); [reflexivity|]. destruct (nth i args VBad); try reflexivity. congruence. }
    rewrite E. fold raw. destruct raw as [st' [v e]]. simpl in *. rewrite tail_spec by assumption. reflexivity.
  Qed.

  (* a wrapper call whose breaker lets it through: server state and result are those of the raw command
     (through the documented conversion); the breaker is told acceptable(returned error) *)
  Lemma run_cmd_spec c b b1 st ctx args :
    guard_holds (r_guard c) args = false -> node_ok c args ->
    accept b = (true, b1) ->
    let raw := exec st ctx (r_cmd c) (place args (r_args c)) in
    (snd (snd raw) <> ENone -> fst (snd raw) = VZero) ->
    let res := spec_result repr c (snd raw) in
    run_cmd exec repr accept mark ENone c b st ctx args =
      if r_wrapped c then ((mark b1 (acceptable (snd res)), fst raw), res, Some (acceptable (snd res)))
      else ((b, fst raw), res, None).
  Proof.
    intros Hg Hn Ha raw Hz res. unfold run_cmd. rewrite Ha.
    rewrite (body_spec c st ctx args Hg Hn Hz). fold raw. fold res.
    destruct res as [v e]. destruct (r_wrapped c); reflexivity.
  Qed.

  (* a rejected call touches neither server nor result *)
  Lemma run_cmd_rejected c b b1 st ctx args gerr :
    r_wrapped c = true -> accept b = (false, b1) ->
    run_cmd exec repr accept mark gerr c b st ctx args =
      ((b1, st), (match r_nil c with AllErrSwallowed => (VB false, ENone) | _ => (VZero, EUnavailable) end), None).
  Proof. intros Hw Ha. unfold run_cmd. rewrite Hw, Ha. reflexivity. Qed.

  (* the guard: no round trip, empty result *)
  Lemma run_cmd_guarded c b b1 st ctx args gerr :
    r_wrapped c = true -> accept b = (true, b1) -> guard_holds (r_guard c) args = true ->
    run_cmd exec repr accept mark gerr c b st ctx args = ((mark b1 true, st), (VZero, ENone), Some true).
  Proof. intros Hw Ha Hg. unfold run_cmd, body. rewrite Hw, Ha, Hg. reflexivity. Qed.

  (* the breaker is marked successful exactly on nil / redis.Nil / context.Canceled *)
  Lemma run_cmd_mark c b st ctx args gerr bs res m :
    run_cmd exec repr accept mark gerr c b st ctx args = (bs, res, Some m) ->
    (m = true <-> spec_acceptable (snd res)).
  Proof.
    unfold run_cmd. destruct (r_wrapped c).
    - destruct (accept b) as [ok b1]. destruct ok.
      + destruct (body exec repr gerr c st ctx args) as [st' [v e]]. intro H. inversion H; subst. simpl.
        unfold spec_acceptable. destruct e; simpl; split; intro X; try reflexivity; try discriminate; auto;
          destruct X as [X|[X|X]]; discriminate.
      + intro H. inversion H.
    - destruct (body exec repr gerr c st ctx args). intro H. inversion H.
  Qed.

  (* --- plain forms --- *)
  Lemma eval_std_args args ps : forall i,
    (i + List.length ps <= List.length args)%nat ->
    map (eval1 args) (std_args i ps) = firstn (List.length ps) (skipn i args).
  Proof.
    induction ps as [|t r IH]; intros i Hi; simpl; [reflexivity|].
    simpl in Hi.
    assert (Hn : skipn i args = nth i args VBad :: skipn (Datatypes.S i) args).
    { clear -Hi. revert i Hi. induction args as [|a l IHl]; intros i Hi; simpl in *; [lia|].
      destruct i; [reflexivity|]. simpl. apply IHl. lia. }
    rewrite Hn. simpl. f_equal.
    - destruct (String.prefix "..." t); reflexivity.
    - apply IH. lia.
  Qed.

  Lemma plain_same gerr fuel tbl name ps target b st ctx args :
    find_row tbl name = Some (Deleg name ps target (Bg :: std_args 0 ps)) ->
    List.length args = List.length ps ->
    run bg exec repr accept mark gerr (Datatypes.S fuel) tbl name b st ctx args =
    run bg exec repr accept mark gerr fuel tbl target b st bg args.
  Proof.
    intros Hf Hl. simpl. rewrite Hf. f_equal.
    rewrite eval_std_args by (simpl; lia). simpl. rewrite <- Hl. apply firstn_all.
  Qed.
End Transparency.

Lemma simple_eqb_eq a b : aexp_simple_eqb a b = true -> a = b.
Proof.
  destruct a, b; simpl; intro H; try discriminate; try reflexivity; apply Nat.eqb_eq in H; congruence.
Qed.

Lemma all2b_simple_eq l1 : forall l2, all2b aexp_simple_eqb l1 l2 = true -> l1 = l2.
Proof.
  induction l1 as [|a r IH]; intros [|b r2]; simpl; intro H; try discriminate; [reflexivity|].
  apply andb_true_iff in H as [H1 H2]. apply simple_eqb_eq in H1. apply IH in H2. congruence.
Qed.

Lemma all2b_string_eq l1 : forall l2, all2b String.eqb l1 l2 = true -> l1 = l2.
Proof.
  induction l1 as [|a r IH]; intros [|b r2]; simpl; intro H; try discriminate; [reflexivity|].
  apply andb_true_iff in H as [H1 H2]. apply String.eqb_eq in H1. apply IH in H2. congruence.
Qed.

Lemma plain_ok_sound ctx_tbl name ps target args :
  plain_ok ctx_tbl (Deleg name ps target args) = true ->
  target = name ++ "Ctx" /\ args = Bg :: std_args 0 ps /\
  exists c, In c ctx_tbl /\ row_name c = target /\ params_of c = ps.
Proof.
  simpl. intro H. apply andb_true_iff in H as [H H3]. apply andb_true_iff in H as [H1 H2].
  apply String.eqb_eq in H1. apply all2b_simple_eq in H2.
  apply existsb_exists in H3 as [c [Hc Hc2]]. apply andb_true_iff in Hc2 as [Hn Hp].
  apply String.eqb_eq in Hn. apply all2b_string_eq in Hp. eauto 6.
Qed.

Lemma acceptable_spec e : acceptable e = true <-> spec_acceptable e.
Proof.
  unfold spec_acceptable. destruct e; simpl; split; intro H; try reflexivity; try discriminate; auto;
    destruct H as [H|[H|H]]; discriminate.
Qed.

(* ------------------------------------------------------------------ sharding *)
Section Shard.
  Variables N K A R Slot : Type.
  Variable K_dec : forall a b : K, {a = b} + {a <> b}.
  Variable node_run : N -> K -> A -> N * R.
  Variable owner : K -> nat.
  Variable get : N -> K -> Slot.
  Variable reply_of : K -> A -> Slot -> R.
  Variable slot_of : K -> A -> Slot -> Slot.

  (* single-key commands read and write only their key's slot *)
  Hypothesis key_local : forall n k a,
    snd (node_run n k a) = reply_of k a (get n k) /\
    get (fst (node_run n k a)) k = slot_of k a (get n k) /\
    forall k', k' <> k -> get (fst (node_run n k a)) k' = get n k'.

  Lemma step_agrees cl s k a :
    agrees owner get cl s ->
    snd (kv_step node_run owner cl k a) = snd (node_run s k a) /\
    agrees owner get (fst (kv_step node_run owner cl k a)) (fst (node_run s k a)).
  Proof.
    intro Hag. unfold kv_step.
    destruct (key_local (cl (owner k)) k a) as [Hr [Hk Ho]].
    destruct (key_local s k a) as [Hr' [Hk' Ho']].
    destruct (node_run (cl (owner k)) k a) as [n' r] eqn:E. simpl in *.
    split.
    - rewrite Hr, Hr', (Hag k). reflexivity.
    - intro k2. unfold upd. destruct (K_dec k2 k) as [->|Hne].
      + rewrite Nat.eqb_refl, Hk, Hk', (Hag k). reflexivity.
      + rewrite (Ho' k2 Hne). destruct (Nat.eqb (owner k2) (owner k)) eqn:Eo.
        * apply Nat.eqb_eq in Eo. rewrite (Ho k2 Hne), <- Eo. apply Hag.
        * apply Hag.
  Qed.

  Lemma shard_equiv h : forall cl s,
    agrees owner get cl s ->
    snd (crun node_run owner cl h) = snd (srun node_run s h) /\
    agrees owner get (fst (crun node_run owner cl h)) (fst (srun node_run s h)).
  Proof.
    induction h as [|[k a] t IH]; intros cl s Hag; simpl; [split; [reflexivity|assumption]|].
    destruct (step_agrees cl s k a Hag) as [Hr Hag'].
    destruct (kv_step node_run owner cl k a) as [c1 r]. destruct (node_run s k a) as [s1 r']. simpl in *.
    destruct (IH c1 s1 Hag') as [Hrs Hag2].
    destruct (crun node_run owner c1 t) as [c2 rs]. destruct (srun node_run s1 t) as [s2 rs']. simpl in *.
    split; [congruence|assumption].
  Qed.

  (* multi-key delete: kv_each = the history [(k1, a); (k2, a); ...] *)
  Lemma kv_each_crun ks a : forall cl,
    kv_each node_run owner cl ks a = crun node_run owner cl (map (fun k => (k, a)) ks).
  Proof.
    induction ks as [|k r IH]; intro cl; simpl; [reflexivity|].
    destruct (kv_step node_run owner cl k a) as [c1 x]. rewrite IH. reflexivity.
  Qed.

  Variable empty : Slot.
  Variable del : A.
  Hypothesis del_removes : forall k s, slot_of k del s = empty.

  Lemma srun_del ks : forall s,
    (forall k, In k ks -> get (fst (srun node_run s (map (fun k => (k, del)) ks))) k = empty) /\
    (forall k, ~ In k ks -> get (fst (srun node_run s (map (fun k => (k, del)) ks))) k = get s k).
  Proof.
    induction ks as [|k0 r IH]; intro s; simpl.
    - split; [intros k []|reflexivity].
    - destruct (key_local s k0 del) as [_ [Hk Ho]].
      destruct (node_run s k0 del) as [s1 x] eqn:E. simpl in *.
      destruct (IH s1) as [Hin Hout].
      destruct (srun node_run s1 (map (fun k => (k, del)) r)) as [s2 xs]. simpl in *.
      split.
      + intros k [<-|Hk']; [|apply Hin; assumption].
        destruct (in_dec K_dec k0 r) as [Hi|Hi]; [apply Hin; assumption|].
        rewrite (Hout k0 Hi), Hk. apply del_removes.
      + intros k Hn. rewrite Hout by tauto. apply Ho. intro; subst; tauto.
  Qed.

  Lemma multidel ks cl s :
    agrees owner get cl s ->
    let cl' := fst (kv_each node_run owner cl ks del) in
    (forall k, In k ks -> get (cl' (owner k)) k = empty) /\
    (forall k, ~ In k ks -> get (cl' (owner k)) k = get (cl (owner k)) k) /\
    snd (kv_each node_run owner cl ks del) = snd (srun node_run s (map (fun k => (k, del)) ks)).
  Proof.
    intro Hag. simpl. rewrite kv_each_crun.
    destruct (shard_equiv (map (fun k => (k, del)) ks) cl s Hag) as [Hr Hag'].
    destruct (srun_del ks s) as [Hin Hout].
    split; [|split].
    - intros k Hk. rewrite (Hag' k). apply Hin. assumption.
    - intros k Hk. rewrite (Hag' k), (Hout k Hk). symmetry. apply Hag.
    - assumption.
  Qed.
End Shard.

(* ------------------------------------------------------------------ client manager *)
Definition cm_inv (m : cmgr) : Prop := forall a c, alookup String.eqb a m = Some c -> o_addr c = a.

Lemma cm_get_spec m r :
  cm_inv m ->
  cm_inv (fst (cm_get m r)) /\ o_addr (snd (cm_get m r)) = i_addr r /\
  alookup String.eqb (i_addr r) (fst (cm_get m r)) = Some (snd (cm_get m r)) /\
  (forall a c, alookup String.eqb a m = Some c -> alookup String.eqb a (fst (cm_get m r)) = Some c).
Proof.
  intro Hi. unfold cm_get. destruct (alookup String.eqb (i_addr r) m) as [c|] eqn:E; simpl.
  - repeat split; auto.
  - repeat split.
    + intros a c. simpl. destruct (String.eqb a (i_addr r)) eqn:Ea.
      * intro H. inversion H. simpl. apply String.eqb_eq in Ea. congruence.
      * apply Hi.
    + rewrite String.eqb_refl. reflexivity.
    + intros a c H. simpl. destruct (String.eqb a (i_addr r)) eqn:Ea; [|assumption].
      apply String.eqb_eq in Ea. congruence.
Qed.

Section NetProofs.
  Variables S Cmd R : Type.
  Variable exec1 : S -> Cmd -> S * R.

  (* a call of wrapper(addr): reply and effect are those of the command on server(addr); every other server untouched;
     the client it used stays the client of that address for ever after *)
  Lemma wcall_spec m (n : net S) r cmd :
    cm_inv m ->
    let res := wcall exec1 (m, n) r cmd in
    snd res = snd (exec1 (n (i_addr r)) cmd) /\
    snd (fst res) (i_addr r) = fst (exec1 (n (i_addr r)) cmd) /\
    (forall a, a <> i_addr r -> snd (fst res) a = n a) /\
    cm_inv (fst (fst res)) /\
    (forall a c, alookup String.eqb a m = Some c -> alookup String.eqb a (fst (fst res)) = Some c).
  Proof.
    intro Hi. unfold wcall. simpl. destruct (cm_get_spec m r Hi) as [Hi' [Ha [_ Hst]]].
    destruct (cm_get m r) as [m' c]. simpl in *. unfold send. rewrite Ha.
    destruct (exec1 (n (i_addr r)) cmd) as [s' x]. simpl.
    repeat split; auto.
    - rewrite String.eqb_refl. reflexivity.
    - intros a Hne. apply String.eqb_neq in Hne. rewrite Hne. reflexivity.
  Qed.

  Lemma wcalls_isolated h : forall m (n : net S) a,
    cm_inv m -> (forall r cmd, In (r, cmd) h -> i_addr r <> a) ->
    snd (fst (wcalls exec1 (m, n) h)) a = n a.
  Proof.
    induction h as [|[r cmd] t IH]; intros m n a Hi Hno; simpl; [reflexivity|].
    destruct (wcall_spec m n r cmd Hi) as [_ [_ [Hoth [Hi' _]]]].
    destruct (wcall exec1 (m, n) r cmd) as [[m1 n1] x]. simpl in *.
    specialize (IH m1 n1 a Hi' (fun r0 c0 H => Hno r0 c0 (or_intror H))).
    destruct (wcalls exec1 (m1, n1) t) as [[m2 n2] xs]. simpl in *.
    rewrite IH. apply Hoth. intro E. exact (Hno r cmd (or_introl eq_refl) (eq_sym E)).
  Qed.
End NetProofs.

(* ------------------------------------------------------------------ script cache *)
Lemma alookup_aset_str (k s v : string) (m : list (string * string)) :
  alookup String.eqb s (aset String.eqb k v m) = if String.eqb k s then Some v else alookup String.eqb s m.
Proof.
  unfold aset. simpl. rewrite (String.eqb_sym s k). destruct (String.eqb k s) eqn:E; [reflexivity|].
  induction m as [|[k' v'] r IH]; simpl; [reflexivity|].
  destruct (String.eqb k k') eqn:E2.
  - apply String.eqb_eq in E2. subst k'. rewrite (String.eqb_sym s k), E. exact IH.
  - simpl. destruct (String.eqb s k'); [reflexivity|exact IH].
Qed.

Lemma sc_last_write h : forall c acc s,
  sc_get c s = acc ->
  sc_get (sc_run c h) s = fold_left (fun acc p => if String.eqb (fst p) s then Some (snd p) else acc) h acc.
Proof.
  induction h as [|[k v] t IH]; intros c acc s H; simpl; [assumption|].
  apply IH. unfold sc_get, sc_set. rewrite alookup_aset_str. simpl.
  destruct (String.eqb k s); [reflexivity|exact H].
Qed.

(* ------------------------------------------------------------------ options *)
Fixpoint last_pass (opts : list wopt) (acc : string) : string :=
  match opts with [] => acc | OPass p :: r => last_pass r p | _ :: r => last_pass r acc end.

Lemma fold_opts opts : forall r,
  let w := fold_left apply_opt opts r in
  w_addr w = w_addr r /\
  (w_type w = TCluster <-> (w_type r = TCluster \/ In OCluster opts)) /\
  (w_tls w = true <-> (w_tls r = true \/ In OTLS opts)) /\
  w_pass w = last_pass opts (w_pass r).
Proof.
  induction opts as [|o t IH]; intro r; simpl.
  - repeat split; tauto.
  - destruct (IH (apply_opt r o)) as [Ha [Ht [Hl Hp]]]. simpl in *. rewrite Ha, Ht, Hl, Hp.
    destruct o; simpl; repeat split; try tauto; try (intros [H|H]; auto; fail);
      try (intros [H|[H|H]]; auto; discriminate).
Qed.

Lemma new_redis_fields c :
  new_redis c = mkw (c_host c) (if String.eqb (c_type c) "cluster" then TCluster else TNode) (c_pass c) (c_tls c).
Proof.
  unfold new_redis, new_w. destruct (String.eqb (c_type c) "cluster"); destruct (c_tls c);
    destruct (c_pass c) as [|ch rest] eqn:E; simpl; reflexivity.
Qed.

(* ------------------------------------------------------------------ blocking nodes *)
Definition binv (s : bst) : Prop :=
  (forall a id, In (a, id) (bs_mgr s) -> id < bs_next s /\ ~ In id (bs_nodes s))%nat /\
  (forall id, In id (bs_nodes s) -> id < bs_next s)%nat /\
  (forall id, In id (bs_closed s) -> In id (bs_nodes s)).

Lemma bstep_inv s o : binv s -> binv (bstep s o).
Proof.
  intros [Hm [Hn Hc]]. destruct o as [a| |id]; simpl.
  - destruct (alookup String.eqb a (bs_mgr s)); [split; [|split]; assumption|].
    unfold binv; simpl. split; [|split].
    + intros a' id [H|H].
      * inversion H; subst. split; [lia|]. intro X. apply Hn in X. lia.
      * destruct (Hm _ _ H). split; [lia|assumption].
    + intros id H. apply Hn in H. lia.
    + assumption.
  - unfold binv; simpl. split; [|split].
    + intros a id H. destruct (Hm _ _ H) as [H1 H2]. split; [lia|]. intros [X|X]; [lia|tauto].
    + intros id [H|H]; [lia|apply Hn in H; lia].
    + intros id H. right. apply Hc. assumption.
  - destruct (existsb (Nat.eqb id) (bs_nodes s)) eqn:E; [|split; [|split]; assumption].
    unfold binv; simpl. split; [|split]; try assumption.
    intros id' [H|H]; [|apply Hc; assumption].
    subst. apply existsb_exists in E as [x [Hx Hx2]]. apply Nat.eqb_eq in Hx2. subst. assumption.
Qed.

Lemma brun_inv h : forall s, binv s -> binv (fold_left bstep h s).
Proof. induction h as [|o t IH]; intros s H; simpl; [assumption|]. apply IH, bstep_inv, H. Qed.

Lemma closed_only_by_close h : forall s id,
  In id (bs_closed (fold_left bstep h s)) -> In id (bs_closed s) \/ In (BClose id) h.
Proof.
  induction h as [|o t IH]; intros s id H; simpl in *; [left; assumption|].
  apply IH in H as [H|H]; [|right; right; assumption].
  destruct o as [a| |id']; simpl in H.
  - destruct (alookup String.eqb a (bs_mgr s)); simpl in H; left; assumption.
  - left; assumption.
  - destruct (existsb (Nat.eqb id') (bs_nodes s)); simpl in H; [|left; assumption].
    destruct H as [H|H]; [subst; right; left; reflexivity|left; assumption].
Qed.

(* ------------------------------------------------------------------ connection-level failures are counted *)
Section ConnFail.
  Variables S C B : Type.
  Variable exec : S -> C -> string -> list val -> S * (val * err).
  Variable repr : val -> string.
  Variable accept : B -> bool * B.
  Variable mark : B -> bool -> B.

  Lemma run_cmd_failure c b b1 st ctx args :
    r_wrapped c = true -> r_nil c <> AllErrSwallowed ->
    guard_holds (r_guard c) args = false -> node_ok c args -> accept b = (true, b1) ->
    let raw := exec st ctx (r_cmd c) (place args (r_args c)) in
    acceptable (snd (snd raw)) = false ->
    exists v, run_cmd exec repr accept mark ENone c b st ctx args =
              ((mark b1 false, fst raw), (v, snd (snd raw)), Some false).
  Proof.
    intros Hw Hn Hg Hno Ha raw He. unfold run_cmd. rewrite Hw, Ha. unfold body. rewrite Hg.
    assert (E : match r_node c with
                | NodeGetRedis => ENone
                | NodeParam i => match nth i args VBad with VNilI => EOther "ErrNilNode" | _ => ENone end
                end = ENone).
    { unfold node_ok in Hno. destruct (r_node c); [reflexivity|]. destruct (nth i args VBad); try reflexivity. congruence. }
    rewrite E. fold raw. destruct raw as [st' [v e]]. simpl in *.
    unfold tail. destruct e; simpl in He; try discriminate;
      destruct (r_nil c); try congruence; simpl; eauto.
  Qed.
End ConnFail.

(* ------------------------------------------------------------------ multi-key delete with unreachable shards *)
Section EachFault.
  Variables N K A R : Type.
  Variable node_run : N -> K -> A -> N * R.
  Variable owner : K -> nat.
  Variable down : nat -> bool.

  Definition reachable (k : K) : bool := negb (down (owner k)).
  Definition somes (l : list (option R)) : list R := flat_map (fun o => match o with Some x => [x] | None => [] end) l.

  (* the faulty loop IS the fault-free loop over the keys whose shard is reachable -- whatever the position of the
     unreachable ones -- and it reports an error iff some named key is unreachable *)
  Lemma kv_each_f_filter ks a : forall cl,
    fst (kv_each_f node_run owner down cl ks a) = fst (kv_each node_run owner cl (filter reachable ks) a) /\
    somes (snd (kv_each_f node_run owner down cl ks a)) = snd (kv_each node_run owner cl (filter reachable ks) a) /\
    (existsb (fun o => match o with None => true | Some _ => false end) (snd (kv_each_f node_run owner down cl ks a))
       = existsb (fun k => down (owner k)) ks).
  Proof.
    induction ks as [|k r IH]; intro cl; [simpl; repeat split; reflexivity|].
    cbn [kv_each_f filter existsb]. replace (reachable k) with (negb (down (owner k))) by reflexivity.
    destruct (down (owner k)) eqn:E; cbn [negb orb].
    - destruct (IH cl) as [H1 [H2 H3]]. destruct (kv_each_f node_run owner down cl r a) as [c2 xs].
      cbn [fst snd somes flat_map app existsb orb] in *. split; [assumption|]. split; [assumption|reflexivity].
    - cbn [kv_each]. destruct (kv_step node_run owner cl k a) as [c1 x]. destruct (IH c1) as [H1 [H2 H3]].
      destruct (kv_each_f node_run owner down c1 r a) as [c2 xs].
      destruct (kv_each node_run owner c1 (filter reachable r) a) as [c3 ys].
      cbn [fst snd somes flat_map app existsb orb] in *. split; [assumption|]. split; [f_equal; assumption|assumption].
  Qed.
End EachFault.
