(* C12 ExecSpec: the case format and the property-level checker spec_ok (nothing here depends on the files
   regenerated from the repository, so the failing-input search works even when those no longer compile).
   C12 Exec: checkers evaluated by vm_compute on every differential history.
   A case = one history: per step the wrapper method, its arguments, the reply observed from the
   wrapper, the reply observed from raw go-redis on the twin server, what the wrapper told its
   breaker; plus the two final keyspaces.
     model_ok : the table regenerated from the CURRENT source (the generated table; see Exec.v), interpreted by the
                Model, turns the raw reply into exactly the observed wrapper reply and breaker report;
     spec_ok  : the observed wrapper reply is the DOCUMENTED conversion (RedisSpec) of the raw reply,
                the breaker was told "success" exactly for nil / redis.Nil / context.Canceled, and the
                two keyspaces are equal (for kv: union of the shards = the single server). *)
From God Require Import Base.Prelude C12.Spec C12.RedisSpec.
From God Require Export C12.GenEnv C12.Table C12.Model.
From Coq Require Import String.
Local Open Scope string_scope.

Record step := mkstep {
  s_m : string;                 (* context-form method name (redis table for kind 0, kv table for kind 1) *)
  s_skip : bool;                (* not executed on either side (time step, blocking command on an empty list) *)
  s_args : list val;
  s_raw : val * err;
  s_wrap : val * err;
  s_told : nat;                 (* 0 not observed, 1 breaker not consulted, 2 told success, 3 told failure,
                                   4 rejected by the breaker, 5 anything else *)
  s_xw : string; s_xr : string  (* side observations (results of pipelined commands) *)
}.

Inductive shaop := SSet (script sha : string) | SGet (script : string) (observed : option string).

Record case := mkcase {
  c_kind : nat;                 (* 0 redis wrapper(s) vs raw (one or several addresses, restarts), 1 kv store vs one
                                   server, 2 breaker phases, 3 script cache stream,
                                   4 per-command breaker acceptance runs (c_phases: one list per command),
                                   5 per-command connection-failure runs (c_phases: one list per command) *)
  c_steps : list step;
  c_dump_w : list (string * string);   (* several addresses: keys prefixed by the index of their server *)
  c_dump_r : list (string * string);
  c_phases : list (list (err * nat));  (* kind 2: absent keys, cancelled contexts, dead server *)
  c_frozen : bool;              (* dead-context stream: the steps after the mark must not touch the server *)
  c_dump_w0 : list (string * string);  (* wrapper-side keyspace at the mark *)
  c_place : list (string * nat);       (* kv: (key, shard holding it), snapshots taken at every restart and at the end *)
  c_sha : list shaop            (* kind 3 *)
}.

Definition repr0 (_ : val) : string := "?".

Definition is_zero (v : val) : bool :=
  match v with
  | VZero | VNilI | VZ 0 | VB false | VS "" | VL [] | VQ 0 _ | VDur 0 => true
  | _ => false
  end.
Definition veq (a b : val) : bool := val_eqb a b || (is_zero a && is_zero b).
Definition res_eq (a b : val * err) : bool :=
  err_eqb (snd a) (snd b) && match snd a with ENone => veq (fst a) (fst b) | _ => true end.

(* the Cmd row a method name resolves to (Deleg rows followed, arguments mapped) *)
Fixpoint resolve (fuel : nat) (tbl : list row) (name : string) (args : list val) : option (cmdrow * list val) :=
  match fuel with
  | O => None
  | S f =>
      match find_row tbl name with
      | Some (Cmd _ _ c) => Some (c, args)
      | Some (Deleg _ _ target (_ :: rest)) => resolve f tbl target (map (eval1 args) rest)
      | _ => None
      end
  end.

(* target wrapper method of a kv method, and whether it is called once per key (errors then come batched) *)
Definition kv_target (fuel : nat) (kt : list kvrow) (name : string) : option (string * bool) :=
  (fix go (f : nat) (n : string) : option (string * bool) :=
     match f with
     | O => None
     | S f' =>
         match find (fun r => String.eqb (kvrow_name r) n) kt with
         | Some (KV _ _ _ t _) => Some (t, false)
         | Some (KVEach _ _ _ _ t _) => Some (t, true)
         | Some (KVDeleg _ _ t _) => go f' t
         | _ => None
         end
     end) fuel name.

Definition row_of (kind : nat) (rt : list row) (kt : list kvrow) (s : step) : option (cmdrow * list val * bool) :=
  match kind with
  | O => option_map (fun x => (x, false)) (resolve 3 rt (s_m s) (s_args s))
  | _ => match kv_target 3 kt (s_m s) with
         | Some (t, each) => option_map (fun x => (x, each)) (resolve 3 rt t (s_args s))
         | None => None
         end
  end.

(* per-key calls (kv DelCtx): the per-key errors are collected in a BatchError, so only "some error" is comparable;
   the count is compared in every case (with an unreachable shard: the twin's per-key DELs of the reachable keys) *)
Definition res_eq_each (a b : val * err) : bool :=
  match snd a, snd b with
  | ENone, ENone => veq (fst a) (fst b)
  | ENone, _ | _, ENone => false
  | _, _ => veq (fst a) (fst b)      (* the count of the keys that could be handled is returned next to the error *)
  end.

(* expected wrapper reply and breaker report, from the raw reply, for row c *)
Definition expect (acc : err -> bool) (c : cmdrow) (args : list val) (raw : val * err) : (val * err) * nat :=
  let r := if guard_holds (r_guard c) args then (VZero, ENone) else tail repr0 c (fst raw) (snd raw) in
  (r, if r_wrapped c then (if acc (snd r) then 2 else 3)%nat else 1%nat).

Definition step_ok (acc : err -> bool) (kind : nat) (rt : list row) (kt : list kvrow) (s : step) : bool :=
  if s_skip s then true else
  match row_of kind rt kt s with
  | Some (c, args, each) =>
      let '(r, told) := expect acc c args (s_raw s) in
      (* per-key calls: the sum of the per-key (converted) counts is returned even next to an error *)
      (if each then res_eq_each (fst (apply_conv repr0 (r_conv c) (fst (s_raw s))), snd r) (s_wrap s) else res_eq r (s_wrap s)) && (Nat.eqb (s_told s) 0 || Nat.eqb (s_told s) told) && String.eqb (s_xw s) (s_xr s)
  | None => false
  end.

Definition dump_eqb (a b : list (string * string)) : bool :=
  list_eqb (fun x y => String.eqb (fst x) (fst y) && String.eqb (snd x) (snd y)) a b.

Definition phase_ok (acc : err -> bool) (want : option err) (l : list (err * nat)) : bool :=
  forallb (fun en =>
             match fst en with
             | EUnavailable => Nat.eqb (snd en) 4
             | e => Nat.eqb (snd en) (if acc e then 2 else 3)
             end &&
             match want with Some w => err_eqb (fst en) w | None => true end) l.

Definition doc_acceptable (e : err) : bool := match e with ENone | ENil | ECanceled => true | _ => false end.

Definition is_conn (e : err) : bool := match e with EOther _ | EUnavailable => true | _ => false end.

(* a key never changes shard (restarts of shard servers included) *)
Definition place_stable (l : list (string * nat)) : bool :=
  forallb (fun p => forallb (fun q => negb (String.eqb (fst p) (fst q)) || Nat.eqb (snd p) (snd q)) l) l.

Definition frozen_ok (c : case) : bool :=
  if c_frozen c then dump_eqb (c_dump_w0 c) (c_dump_w c) else true.

(* script cache stream, model side: the assoc-map transcription answers every GetSha as observed *)
Fixpoint sha_model (m : scache) (l : list shaop) : bool :=
  match l with
  | [] => true
  | SSet s x :: r => sha_model (sc_set m s x) r
  | SGet s o :: r => option_eqb String.eqb (sc_get m s) o && sha_model m r
  end.

(* spec side: every observed GetSha is the most recent SetSha of that text in the history so far *)
Fixpoint sha_spec (past : list (string * string)) (l : list shaop) : bool :=
  match l with
  | [] => true
  | SSet s x :: r => sha_spec (past ++ [(s, x)]) r
  | SGet s o :: r => option_eqb String.eqb (last_set s past) o && sha_spec past r
  end.

Definition spec_ok (c : case) : bool :=
  match c_kind c with
  | 2%nat =>
      match c_phases c with
      | pn :: pc :: pd :: rest =>
          (* redis.Nil and context.Canceled never trip the breaker: no call is rejected *)
          phase_ok doc_acceptable (Some ENil) pn && phase_ok doc_acceptable (Some ECanceled) pc &&
          (* connection-level failures -- refused connections (pd), and peers that accept, read the request and
             then hang up (bare io.EOF), reset the connection, or never answer (rest) -- are counted, on every
             command kind, and eventually calls are rejected *)
          forallb (fun ph => phase_ok doc_acceptable None ph && forallb (fun en => is_conn (fst en)) ph &&
                             existsb (fun en => err_eqb (fst en) EUnavailable) ph) (pd :: rest)
      | _ => false
      end
  | 5%nat =>
      (* per command, recording breaker: every call against a failing peer ends in a connection-level error that is
         reported to the breaker as a failure *)
      forallb (fun run => forallb (fun en => match fst en with EOther _ => Nat.eqb (snd en) 3 | _ => false end) run)
              (c_phases c)
  | 3%nat => sha_spec [] (c_sha c)
  | 4%nat =>
      (* per-command runs on a fresh handle with the real breaker: every reply is nil / redis.Nil / context.Canceled,
         each was reported to the breaker as a success, none was rejected, and the probe that ends the run works *)
      forallb (fun run => phase_ok doc_acceptable None run && forallb (fun en => doc_acceptable (fst en)) run &&
                          match rev run with (ENone, _) :: _ => true | _ => false end) (c_phases c)
  | k => forallb (step_ok doc_acceptable k redis_spec kv_spec) (c_steps c) &&
         dump_eqb (c_dump_w c) (c_dump_r c) && frozen_ok c && place_stable (c_place c)
  end.
