(* C12 RedisSpec: the DOCUMENTED correspondence between the wrapper API and go-redis v8.11.5.

   One row per context-form method of redis.Redis (lib/store/redis/redis.go) and of kv.Store
   (lib/store/kv/store.go):   wrapper method, parameter types |-> go-redis method called on the node,
   placement of the parameters (P i = i-th parameter after ctx) in its argument list, conversion of
   its value, redis.Nil policy, breaker guard.  The table was bootstrapped from the source and then
   reviewed row by row against the method set of go-redis' Cmdable
   (github.com/go-redis/redis/v8@v8.11.5/commands.go, lines 83-397): for every row the parameter named
   key/field/member/start/stop/min/max/score/increment/count/offset/seconds in the wrapper reaches the
   go-redis parameter of the same meaning, in go-redis' order and type.  Rows marked `!` are recorded
   as they are documented/implemented but are worth a second look (see the builder's report):
     - ScriptLoadCtx is not guarded by the breaker (the blocking BLPop* family is documented as unguarded);
     - TTLCtx maps go-redis' -1ns / -2ns markers to 0 seconds;
     - Z(Rev)RangeByScoreWithScoresAndLimitCtx return an empty result for size <= 0 without a round trip;
     - redis.Nil is swallowed by GetCtx and GetSetCtx only; HGet/LPop/RPop/LIndex/SPop/ZScore/ZRank/ZRevRank
       return it.
   Plain forms are specified by a rule (plain_ok below): Xxx(p...) = XxxCtx(context.Background(), p...).

   Hand-maintained.  The generated table (GodGen.C12_Table, from the current source) must be EQUAL to
   this one: Props.c12_table_ok. *)
From Coq Require Import String List ZArith Bool.
From God Require Import C12.Table.
Import ListNotations.
Local Open Scope string_scope.

Definition redis_spec : list row := [
  Cmd "BitCountCtx" ["string"; "int64"; "int64"] (mkcmd true NodeGetRedis (NoGuard) "BitCount" [P 0; Rec "BitCount" [("Start", P 1); ("End", P 2)]] (CId) NilReturned);
  Cmd "BitOpAndCtx" ["string"; "...string"] (mkcmd true NodeGetRedis (NoGuard) "BitOpAnd" [P 0; PV 1] (CId) NilReturned);
  Cmd "BitOpOrCtx" ["string"; "...string"] (mkcmd true NodeGetRedis (NoGuard) "BitOpOr" [P 0; PV 1] (CId) NilReturned);
  Cmd "BitOpXorCtx" ["string"; "...string"] (mkcmd true NodeGetRedis (NoGuard) "BitOpXor" [P 0; PV 1] (CId) NilReturned);
  Cmd "BitOpNotCtx" ["string"; "string"] (mkcmd true NodeGetRedis (NoGuard) "BitOpNot" [P 0; P 1] (CId) NilReturned);
  Cmd "BitPosCtx" ["string"; "int64"; "int64"; "int64"] (mkcmd true NodeGetRedis (NoGuard) "BitPos" [P 0; P 1; P 2; P 3] (CId) NilReturned);
  (* blocking: caller supplies the node; NOT breaker-guarded (documented in the Go comment) *)
  Deleg "BLPopCtx" ["Node"; "string"] "BLPopWithTimeoutCtx" [Ctx; P 0; Konst "blockingQueryTimeout"; P 1];
  (* reply [key; value] -> value, true *)
  Cmd "BLPopExCtx" ["Node"; "string"] (mkcmd false (NodeParam 0) (NoGuard) "BLPop" [Konst "blockingQueryTimeout"; P 1] (CIdx1Ok) NilReturned);
  (* reply [key; value] -> value *)
  Cmd "BLPopWithTimeoutCtx" ["Node"; "time.Duration"; "string"] (mkcmd false (NodeParam 0) (NoGuard) "BLPop" [P 1; P 2] (CIdx1) NilReturned);
  Cmd "DecrCtx" ["string"] (mkcmd true NodeGetRedis (NoGuard) "Decr" [P 0] (CId) NilReturned);
  Cmd "DecrByCtx" ["string"; "int64"] (mkcmd true NodeGetRedis (NoGuard) "DecrBy" [P 0; P 1] (CId) NilReturned);
  Cmd "DelCtx" ["...string"] (mkcmd true NodeGetRedis (NoGuard) "Del" [PV 0] (CInt) NilReturned);
  Cmd "EvalCtx" ["string"; "[]string"; "...any"] (mkcmd true NodeGetRedis (NoGuard) "Eval" [P 0; P 1; PV 2] (CId) NilReturned);
  Cmd "EvalShaCtx" ["string"; "[]string"; "...any"] (mkcmd true NodeGetRedis (NoGuard) "EvalSha" [P 0; P 1; PV 2] (CId) NilReturned);
  (* one key: reply is 0 or 1 *)
  Cmd "ExistsCtx" ["string"] (mkcmd true NodeGetRedis (NoGuard) "Exists" [P 0] (CEq1) NilReturned);
  (* .Err(): the BoolCmd value (false = no such key) is dropped *)
  Cmd "ExpireCtx" ["string"; "int"] (mkcmd true NodeGetRedis (NoGuard) "Expire" [P 0; DurS (P 1)] (CNone) NilReturned);
  (* .Err(): as ExpireCtx *)
  Cmd "ExpireAtCtx" ["string"; "int64"] (mkcmd true NodeGetRedis (NoGuard) "ExpireAt" [P 0; UnixS (P 1)] (CNone) NilReturned);
  Cmd "GeoAddCtx" ["string"; "...*GeoLocation"] (mkcmd true NodeGetRedis (NoGuard) "GeoAdd" [P 0; PV 1] (CId) NilReturned);
  Cmd "GeoDistCtx" ["string"; "string"; "string"; "string"] (mkcmd true NodeGetRedis (NoGuard) "GeoDist" [P 0; P 1; P 2; P 3] (CId) NilReturned);
  Cmd "GeoHashCtx" ["string"; "...string"] (mkcmd true NodeGetRedis (NoGuard) "GeoHash" [P 0; PV 1] (CId) NilReturned);
  Cmd "GeoRadiusCtx" ["string"; "float64"; "float64"; "*GeoRadiusQuery"] (mkcmd true NodeGetRedis (NoGuard) "GeoRadius" [P 0; P 1; P 2; P 3] (CId) NilReturned);
  Cmd "GeoRadiusByMemberCtx" ["string"; "string"; "*GeoRadiusQuery"] (mkcmd true NodeGetRedis (NoGuard) "GeoRadiusByMember" [P 0; P 1; P 2] (CId) NilReturned);
  Cmd "GeoPosCtx" ["string"; "...string"] (mkcmd true NodeGetRedis (NoGuard) "GeoPos" [P 0; PV 1] (CId) NilReturned);
  (* redis.Nil swallowed: absent key => ("", nil) *)
  Cmd "GetCtx" ["string"] (mkcmd true NodeGetRedis (NoGuard) "Get" [P 0] (CId) NilSwallowed);
  Cmd "GetBitCtx" ["string"; "int64"] (mkcmd true NodeGetRedis (NoGuard) "GetBit" [P 0; P 1] (CInt) NilReturned);
  (* redis.Nil swallowed: no previous value => ("", nil) *)
  Cmd "GetSetCtx" ["string"; "string"] (mkcmd true NodeGetRedis (NoGuard) "GetSet" [P 0; P 1] (CId) NilSwallowed);
  (* number of removed fields >= 1 *)
  Cmd "HDelCtx" ["string"; "...string"] (mkcmd true NodeGetRedis (NoGuard) "HDel" [P 0; PV 1] (CGe1) NilReturned);
  Cmd "HExistsCtx" ["string"; "string"] (mkcmd true NodeGetRedis (NoGuard) "HExists" [P 0; P 1] (CId) NilReturned);
  (* redis.Nil returned (unlike GetCtx) *)
  Cmd "HGetCtx" ["string"; "string"] (mkcmd true NodeGetRedis (NoGuard) "HGet" [P 0; P 1] (CId) NilReturned);
  Cmd "HGetAllCtx" ["string"] (mkcmd true NodeGetRedis (NoGuard) "HGetAll" [P 0] (CId) NilReturned);
  Cmd "HIncrByCtx" ["string"; "string"; "int"] (mkcmd true NodeGetRedis (NoGuard) "HIncrBy" [P 0; P 1; I64 (P 2)] (CInt) NilReturned);
  Cmd "HKeysCtx" ["string"] (mkcmd true NodeGetRedis (NoGuard) "HKeys" [P 0] (CId) NilReturned);
  Cmd "HLenCtx" ["string"] (mkcmd true NodeGetRedis (NoGuard) "HLen" [P 0] (CInt) NilReturned);
  (* []interface{} -> []string, nil (absent field) -> "" *)
  Cmd "HMGetCtx" ["string"; "...string"] (mkcmd true NodeGetRedis (NoGuard) "HMGet" [P 0; PV 1] (CToStrings) NilReturned);
  (* HSet(key, values...) with values = field, value *)
  Cmd "HSetCtx" ["string"; "string"; "string"] (mkcmd true NodeGetRedis (NoGuard) "HSet" [P 0; P 1; P 2] (CNone) NilReturned);
  Cmd "HSetNXCtx" ["string"; "string"; "string"] (mkcmd true NodeGetRedis (NoGuard) "HSetNX" [P 0; P 1; P 2] (CId) NilReturned);
  (* map[string]string copied into map[string]any *)
  Cmd "HMSetCtx" ["string"; "map[string]string"] (mkcmd true NodeGetRedis (NoGuard) "HMSet" [P 0; Loc "vals" ["vals := make ( map [ string ] any , len ( p1 ) )"; "for k , v := range p1 { vals [ k ] = v ; }"]] (CNone) NilReturned);
  Cmd "HScanCtx" ["string"; "uint64"; "string"; "int64"] (mkcmd true NodeGetRedis (NoGuard) "HScan" [P 0; P 1; P 2; P 3] (CId) NilReturned);
  Cmd "HValsCtx" ["string"] (mkcmd true NodeGetRedis (NoGuard) "HVals" [P 0] (CId) NilReturned);
  Cmd "IncrCtx" ["string"] (mkcmd true NodeGetRedis (NoGuard) "Incr" [P 0] (CId) NilReturned);
  Cmd "IncrByCtx" ["string"; "int64"] (mkcmd true NodeGetRedis (NoGuard) "IncrBy" [P 0; P 1] (CId) NilReturned);
  Cmd "KeysCtx" ["string"] (mkcmd true NodeGetRedis (NoGuard) "Keys" [P 0] (CId) NilReturned);
  Cmd "LLenCtx" ["string"] (mkcmd true NodeGetRedis (NoGuard) "LLen" [P 0] (CInt) NilReturned);
  Cmd "LIndexCtx" ["string"; "int64"] (mkcmd true NodeGetRedis (NoGuard) "LIndex" [P 0; P 1] (CId) NilReturned);
  Cmd "LPopCtx" ["string"] (mkcmd true NodeGetRedis (NoGuard) "LPop" [P 0] (CId) NilReturned);
  Cmd "LPushCtx" ["string"; "...any"] (mkcmd true NodeGetRedis (NoGuard) "LPush" [P 0; PV 1] (CInt) NilReturned);
  Cmd "LRangeCtx" ["string"; "int"; "int"] (mkcmd true NodeGetRedis (NoGuard) "LRange" [P 0; I64 (P 1); I64 (P 2)] (CId) NilReturned);
  Cmd "LRemCtx" ["string"; "int"; "string"] (mkcmd true NodeGetRedis (NoGuard) "LRem" [P 0; I64 (P 1); P 2] (CInt) NilReturned);
  Cmd "LTrimCtx" ["string"; "int64"; "int64"] (mkcmd true NodeGetRedis (NoGuard) "LTrim" [P 0; P 1; P 2] (CNone) NilReturned);
  (* []interface{} -> []string, nil (absent key) -> "" *)
  Cmd "MGetCtx" ["...string"] (mkcmd true NodeGetRedis (NoGuard) "MGet" [PV 0] (CToStrings) NilReturned);
  Cmd "PersistCtx" ["string"] (mkcmd true NodeGetRedis (NoGuard) "Persist" [P 0] (CId) NilReturned);
  (* reply 1 iff the HLL was altered *)
  Cmd "PFAddCtx" ["string"; "...any"] (mkcmd true NodeGetRedis (NoGuard) "PFAdd" [P 0; PV 1] (CGe1) NilReturned);
  Cmd "PFCountCtx" ["string"] (mkcmd true NodeGetRedis (NoGuard) "PFCount" [P 0] (CId) NilReturned);
  Cmd "PFMergeCtx" ["string"; "...string"] (mkcmd true NodeGetRedis (NoGuard) "PFMerge" [P 0; PV 1] (CNone) NilReturned);
  (* every error (breaker rejection included) => false *)
  Cmd "PingCtx" [] (mkcmd true NodeGetRedis (NoGuard) "Ping" [] (CEqStr "PONG") AllErrSwallowed);
  (* the []Cmder is dropped; results are read from the queued commands *)
  Cmd "PipelinedCtx" ["func(Pipeliner) error"] (mkcmd true NodeGetRedis (NoGuard) "Pipelined" [P 0] (CNone) NilReturned);
  Cmd "RPopCtx" ["string"] (mkcmd true NodeGetRedis (NoGuard) "RPop" [P 0] (CId) NilReturned);
  Cmd "RPushCtx" ["string"; "...any"] (mkcmd true NodeGetRedis (NoGuard) "RPush" [P 0; PV 1] (CInt) NilReturned);
  Cmd "SAddCtx" ["string"; "...any"] (mkcmd true NodeGetRedis (NoGuard) "SAdd" [P 0; PV 1] (CInt) NilReturned);
  Cmd "ScanCtx" ["uint64"; "string"; "int64"] (mkcmd true NodeGetRedis (NoGuard) "Scan" [P 0; P 1; P 2] (CId) NilReturned);
  Cmd "SetBitCtx" ["string"; "int64"; "int"] (mkcmd true NodeGetRedis (NoGuard) "SetBit" [P 0; P 1; P 2] (CInt) NilReturned);
  Cmd "SScanCtx" ["string"; "uint64"; "string"; "int64"] (mkcmd true NodeGetRedis (NoGuard) "SScan" [P 0; P 1; P 2; P 3] (CId) NilReturned);
  Cmd "SCardCtx" ["string"] (mkcmd true NodeGetRedis (NoGuard) "SCard" [P 0] (CId) NilReturned);
  (* ! the only non-blocking command that is NOT breaker-guarded *)
  Cmd "ScriptLoadCtx" ["string"] (mkcmd false NodeGetRedis (NoGuard) "ScriptLoad" [P 0] (CId) NilReturned);
  (* expiration 0 = none *)
  Cmd "SetCtx" ["string"; "string"] (mkcmd true NodeGetRedis (NoGuard) "Set" [P 0; P 1; Lit "0"] (CNone) NilReturned);
  (* SET key value EX seconds (go-redis Set with expiration); seconds <= 0 => stored without expiry *)
  Cmd "SetExCtx" ["string"; "string"; "int"] (mkcmd true NodeGetRedis (NoGuard) "Set" [P 0; P 1; DurS (P 2)] (CNone) NilReturned);
  (* expiration 0 = none *)
  Cmd "SetNXCtx" ["string"; "string"] (mkcmd true NodeGetRedis (NoGuard) "SetNX" [P 0; P 1; Lit "0"] (CId) NilReturned);
  Cmd "SetNXExCtx" ["string"; "string"; "int"] (mkcmd true NodeGetRedis (NoGuard) "SetNX" [P 0; P 1; DurS (P 2)] (CId) NilReturned);
  Cmd "SIsMemberCtx" ["string"; "any"] (mkcmd true NodeGetRedis (NoGuard) "SIsMember" [P 0; P 1] (CId) NilReturned);
  Cmd "SMembersCtx" ["string"] (mkcmd true NodeGetRedis (NoGuard) "SMembers" [P 0] (CId) NilReturned);
  Cmd "SPopCtx" ["string"] (mkcmd true NodeGetRedis (NoGuard) "SPop" [P 0] (CId) NilReturned);
  (* SRANDMEMBER key count *)
  Cmd "SRandMemberCtx" ["string"; "int"] (mkcmd true NodeGetRedis (NoGuard) "SRandMemberN" [P 0; I64 (P 1)] (CId) NilReturned);
  Cmd "SRemCtx" ["string"; "...any"] (mkcmd true NodeGetRedis (NoGuard) "SRem" [P 0; PV 1] (CInt) NilReturned);
  Cmd "SUnionCtx" ["...string"] (mkcmd true NodeGetRedis (NoGuard) "SUnion" [PV 0] (CId) NilReturned);
  Cmd "SUnionStoreCtx" ["string"; "...string"] (mkcmd true NodeGetRedis (NoGuard) "SUnionStore" [P 0; PV 1] (CInt) NilReturned);
  Cmd "SDiffCtx" ["...string"] (mkcmd true NodeGetRedis (NoGuard) "SDiff" [PV 0] (CId) NilReturned);
  Cmd "SDiffStoreCtx" ["string"; "...string"] (mkcmd true NodeGetRedis (NoGuard) "SDiffStore" [P 0; PV 1] (CInt) NilReturned);
  Cmd "SInterCtx" ["...string"] (mkcmd true NodeGetRedis (NoGuard) "SInter" [PV 0] (CId) NilReturned);
  Cmd "SInterStoreCtx" ["string"; "...string"] (mkcmd true NodeGetRedis (NoGuard) "SInterStore" [P 0; PV 1] (CInt) NilReturned);
  (* ! Duration -> whole seconds by truncating division: go-redis -1ns/-2ns (no expiry / no key) both become 0 *)
  Cmd "TTLCtx" ["string"] (mkcmd true NodeGetRedis (NoGuard) "TTL" [P 0] (CDurSec) NilReturned);
  (* int64 score -> float64 *)
  Deleg "ZAddCtx" ["string"; "int64"; "string"] "ZAddFloatCtx" [Ctx; P 0; F64 (P 1); P 2];
  (* one member: reply 1 iff newly added *)
  Cmd "ZAddFloatCtx" ["string"; "float64"; "string"] (mkcmd true NodeGetRedis (NoGuard) "ZAdd" [P 0; Rec "Z" [("Score", P 1); ("Member", P 2)]] (CEq1) NilReturned);
  (* Pair{Member, Score int64} -> Z{Score float64, Member} *)
  Cmd "ZAddsCtx" ["string"; "...Pair"] (mkcmd true NodeGetRedis (NoGuard) "ZAdd" [P 0; Loc "zs..." ["var zs [ ] * red.Z"; "for _ , p := range p1 { z := & red.Z { Score : float64 ( p.Score ) , Member : p.Member } ; zs = append ( zs , z ) ; }"]] (CId) NilReturned);
  Cmd "ZCardCtx" ["string"] (mkcmd true NodeGetRedis (NoGuard) "ZCard" [P 0] (CInt) NilReturned);
  (* start -> min, stop -> max, both inclusive, decimal *)
  Cmd "ZCountCtx" ["string"; "int64"; "int64"] (mkcmd true NodeGetRedis (NoGuard) "ZCount" [P 0; Itoa (P 1); Itoa (P 2)] (CInt) NilReturned);
  (* float64 reply truncated to int64 *)
  Cmd "ZIncrByCtx" ["string"; "int64"; "string"] (mkcmd true NodeGetRedis (NoGuard) "ZIncrBy" [P 0; F64 (P 1); P 2] (CI64) NilReturned);
  (* float64 reply truncated to int64; redis.Nil returned *)
  Cmd "ZScoreCtx" ["string"; "string"] (mkcmd true NodeGetRedis (NoGuard) "ZScore" [P 0; P 1] (CI64) NilReturned);
  Cmd "ZRankCtx" ["string"; "string"] (mkcmd true NodeGetRedis (NoGuard) "ZRank" [P 0; P 1] (CId) NilReturned);
  Cmd "ZRemCtx" ["string"; "...any"] (mkcmd true NodeGetRedis (NoGuard) "ZRem" [P 0; PV 1] (CInt) NilReturned);
  (* start -> min, stop -> max *)
  Cmd "ZRemRangeByScoreCtx" ["string"; "int64"; "int64"] (mkcmd true NodeGetRedis (NoGuard) "ZRemRangeByScore" [P 0; Itoa (P 1); Itoa (P 2)] (CInt) NilReturned);
  Cmd "ZRemRangeByRankCtx" ["string"; "int64"; "int64"] (mkcmd true NodeGetRedis (NoGuard) "ZRemRangeByRank" [P 0; P 1; P 2] (CInt) NilReturned);
  Cmd "ZRangeCtx" ["string"; "int64"; "int64"] (mkcmd true NodeGetRedis (NoGuard) "ZRange" [P 0; P 1; P 2] (CId) NilReturned);
  Cmd "ZRangeWithScoresCtx" ["string"; "int64"; "int64"] (mkcmd true NodeGetRedis (NoGuard) "ZRangeWithScores" [P 0; P 1; P 2] (CToPairs) NilReturned);
  Cmd "ZRevRangeWithScoresCtx" ["string"; "int64"; "int64"] (mkcmd true NodeGetRedis (NoGuard) "ZRevRangeWithScores" [P 0; P 1; P 2] (CToPairs) NilReturned);
  Cmd "ZRangeByScoreWithScoresCtx" ["string"; "int64"; "int64"] (mkcmd true NodeGetRedis (NoGuard) "ZRangeByScoreWithScores" [P 0; Rec "ZRangeBy" [("Min", Itoa (P 1)); ("Max", Itoa (P 2))]] (CToPairs) NilReturned);
  (* ! size <= 0 => empty result WITHOUT issuing the command (raw ZRangeBy{Count:0} would mean no limit); offset = page*size *)
  Cmd "ZRangeByScoreWithScoresAndLimitCtx" ["string"; "int64"; "int64"; "int"; "int"] (mkcmd true NodeGetRedis (GLe0 (P 4)) "ZRangeByScoreWithScores" [P 0; Rec "ZRangeBy" [("Min", Itoa (P 1)); ("Max", Itoa (P 2)); ("Offset", I64 (Mul (P 3) (P 4))); ("Count", I64 (P 4))]] (CToPairs) NilReturned);
  Cmd "ZRevRangeCtx" ["string"; "int64"; "int64"] (mkcmd true NodeGetRedis (NoGuard) "ZRevRange" [P 0; P 1; P 2] (CId) NilReturned);
  (* start -> Min, stop -> Max (go-redis sends max first for ZREVRANGEBYSCORE) *)
  Cmd "ZRevRangeByScoreWithScoresCtx" ["string"; "int64"; "int64"] (mkcmd true NodeGetRedis (NoGuard) "ZRevRangeByScoreWithScores" [P 0; Rec "ZRangeBy" [("Min", Itoa (P 1)); ("Max", Itoa (P 2))]] (CToPairs) NilReturned);
  (* ! as ZRangeByScoreWithScoresAndLimitCtx *)
  Cmd "ZRevRangeByScoreWithScoresAndLimitCtx" ["string"; "int64"; "int64"; "int"; "int"] (mkcmd true NodeGetRedis (GLe0 (P 4)) "ZRevRangeByScoreWithScores" [P 0; Rec "ZRangeBy" [("Min", Itoa (P 1)); ("Max", Itoa (P 2)); ("Offset", I64 (Mul (P 3) (P 4))); ("Count", I64 (P 4))]] (CToPairs) NilReturned);
  Cmd "ZRevRankCtx" ["string"; "string"] (mkcmd true NodeGetRedis (NoGuard) "ZRevRank" [P 0; P 1] (CId) NilReturned);
  Cmd "ZUnionStoreCtx" ["string"; "*ZStore"] (mkcmd true NodeGetRedis (NoGuard) "ZUnionStore" [P 0; P 1] (CId) NilReturned)
].

(* kv.Store: dispatch expression (the key the consistent hash is asked for), wrapper method, arguments *)
Definition kv_spec : list kvrow := [
  KV "DecrCtx" ["string"] (P 0) "DecrCtx" [Ctx; P 0];
  KV "DecrByCtx" ["string"; "int64"] (P 0) "DecrByCtx" [Ctx; P 0; P 1];
  (* one DelCtx(ctx, key) per named key on that key's node; counts summed, errors batched *)
  KVEach "DelCtx" ["...string"] 0 (Elem) "DelCtx" [Ctx; Elem];
  (* single key: dispatch on it and pass it as KEYS = [key] *)
  KV "EvalCtx" ["string"; "string"; "...any"] (P 1) "EvalCtx" [Ctx; P 0; Strs [P 1]; PV 2];
  KV "ExistsCtx" ["string"] (P 0) "ExistsCtx" [Ctx; P 0];
  KV "ExpireCtx" ["string"; "int"] (P 0) "ExpireCtx" [Ctx; P 0; P 1];
  KV "ExpireAtCtx" ["string"; "int64"] (P 0) "ExpireAtCtx" [Ctx; P 0; P 1];
  KV "GetCtx" ["string"] (P 0) "GetCtx" [Ctx; P 0];
  (* one field only (the wrapper method is variadic) *)
  KV "HDelCtx" ["string"; "string"] (P 0) "HDelCtx" [Ctx; P 0; P 1];
  KV "HExistsCtx" ["string"; "string"] (P 0) "HExistsCtx" [Ctx; P 0; P 1];
  KV "HGetCtx" ["string"; "string"] (P 0) "HGetCtx" [Ctx; P 0; P 1];
  KV "HGetAllCtx" ["string"] (P 0) "HGetAllCtx" [Ctx; P 0];
  KV "HIncrByCtx" ["string"; "string"; "int"] (P 0) "HIncrByCtx" [Ctx; P 0; P 1; P 2];
  KV "HKeysCtx" ["string"] (P 0) "HKeysCtx" [Ctx; P 0];
  KV "HLenCtx" ["string"] (P 0) "HLenCtx" [Ctx; P 0];
  KV "HMGetCtx" ["string"; "...string"] (P 0) "HMGetCtx" [Ctx; P 0; PV 1];
  KV "HSetCtx" ["string"; "string"; "string"] (P 0) "HSetCtx" [Ctx; P 0; P 1; P 2];
  KV "HSetNxCtx" ["string"; "string"; "string"] (P 0) "HSetNXCtx" [Ctx; P 0; P 1; P 2];
  KV "HMSetCtx" ["string"; "map[string]string"] (P 0) "HMSetCtx" [Ctx; P 0; P 1];
  KV "HValsCtx" ["string"] (P 0) "HValsCtx" [Ctx; P 0];
  KV "IncrCtx" ["string"] (P 0) "IncrCtx" [Ctx; P 0];
  KV "IncrByCtx" ["string"; "int64"] (P 0) "IncrByCtx" [Ctx; P 0; P 1];
  KV "LLenCtx" ["string"] (P 0) "LLenCtx" [Ctx; P 0];
  KV "LIndexCtx" ["string"; "int64"] (P 0) "LIndexCtx" [Ctx; P 0; P 1];
  KV "LPopCtx" ["string"] (P 0) "LPopCtx" [Ctx; P 0];
  KV "LPushCtx" ["string"; "...any"] (P 0) "LPushCtx" [Ctx; P 0; PV 1];
  KV "LRangeCtx" ["string"; "int"; "int"] (P 0) "LRangeCtx" [Ctx; P 0; P 1; P 2];
  KV "LRemCtx" ["string"; "int"; "string"] (P 0) "LRemCtx" [Ctx; P 0; P 1; P 2];
  KV "LTrimCtx" ["string"; "int64"; "int64"] (P 0) "LTrimCtx" [Ctx; P 0; P 1; P 2];
  KV "PersistCtx" ["string"] (P 0) "PersistCtx" [Ctx; P 0];
  KV "PFAddCtx" ["string"; "...any"] (P 0) "PFAddCtx" [Ctx; P 0; PV 1];
  KV "PFCountCtx" ["string"] (P 0) "PFCountCtx" [Ctx; P 0];
  KV "RPopCtx" ["string"] (P 0) "RPopCtx" [Ctx; P 0];
  KV "RPushCtx" ["string"; "...any"] (P 0) "RPushCtx" [Ctx; P 0; PV 1];
  KV "SAddCtx" ["string"; "...any"] (P 0) "SAddCtx" [Ctx; P 0; PV 1];
  KV "SCardCtx" ["string"] (P 0) "SCardCtx" [Ctx; P 0];
  KV "SetCtx" ["string"; "string"] (P 0) "SetCtx" [Ctx; P 0; P 1];
  KV "SetBitCtx" ["string"; "int64"; "int"] (P 0) "SetBitCtx" [Ctx; P 0; P 1; P 2];
  KV "SetExCtx" ["string"; "string"; "int"] (P 0) "SetExCtx" [Ctx; P 0; P 1; P 2];
  KV "SetNXCtx" ["string"; "string"] (P 0) "SetNXCtx" [Ctx; P 0; P 1];
  KV "SetNXExCtx" ["string"; "string"; "int"] (P 0) "SetNXExCtx" [Ctx; P 0; P 1; P 2];
  KV "GetSetCtx" ["string"; "string"] (P 0) "GetSetCtx" [Ctx; P 0; P 1];
  KV "GetBitCtx" ["string"; "int64"] (P 0) "GetBitCtx" [Ctx; P 0; P 1];
  KV "SIsMemberCtx" ["string"; "any"] (P 0) "SIsMemberCtx" [Ctx; P 0; P 1];
  KV "SMembersCtx" ["string"] (P 0) "SMembersCtx" [Ctx; P 0];
  KV "SPopCtx" ["string"] (P 0) "SPopCtx" [Ctx; P 0];
  KV "SRandMemberCtx" ["string"; "int"] (P 0) "SRandMemberCtx" [Ctx; P 0; P 1];
  KV "SRemCtx" ["string"; "...any"] (P 0) "SRemCtx" [Ctx; P 0; PV 1];
  KV "SScanCtx" ["string"; "uint64"; "string"; "int64"] (P 0) "SScanCtx" [Ctx; P 0; P 1; P 2; P 3];
  KV "TTLCtx" ["string"] (P 0) "TTLCtx" [Ctx; P 0];
  (* int64 score -> float64, then ZAddFloatCtx *)
  KVDeleg "ZAddCtx" ["string"; "int64"; "string"] "ZAddFloatCtx" [Ctx; P 0; F64 (P 1); P 2];
  KV "ZAddFloatCtx" ["string"; "float64"; "string"] (P 0) "ZAddFloatCtx" [Ctx; P 0; P 1; P 2];
  KV "ZAddsCtx" ["string"; "...redis.Pair"] (P 0) "ZAddsCtx" [Ctx; P 0; PV 1];
  KV "ZCardCtx" ["string"] (P 0) "ZCardCtx" [Ctx; P 0];
  KV "ZCountCtx" ["string"; "int64"; "int64"] (P 0) "ZCountCtx" [Ctx; P 0; P 1; P 2];
  KV "ZIncrByCtx" ["string"; "int64"; "string"] (P 0) "ZIncrByCtx" [Ctx; P 0; P 1; P 2];
  KV "ZRankCtx" ["string"; "string"] (P 0) "ZRankCtx" [Ctx; P 0; P 1];
  KV "ZRangeCtx" ["string"; "int64"; "int64"] (P 0) "ZRangeCtx" [Ctx; P 0; P 1; P 2];
  KV "ZRangeWithScoresCtx" ["string"; "int64"; "int64"] (P 0) "ZRangeWithScoresCtx" [Ctx; P 0; P 1; P 2];
  KV "ZRangeByScoreWithScoresCtx" ["string"; "int64"; "int64"] (P 0) "ZRangeByScoreWithScoresCtx" [Ctx; P 0; P 1; P 2];
  KV "ZRangeByScoreWithScoresAndLimitCtx" ["string"; "int64"; "int64"; "int"; "int"] (P 0) "ZRangeByScoreWithScoresAndLimitCtx" [Ctx; P 0; P 1; P 2; P 3; P 4];
  KV "ZRemCtx" ["string"; "...any"] (P 0) "ZRemCtx" [Ctx; P 0; PV 1];
  KV "ZRemRangeByRankCtx" ["string"; "int64"; "int64"] (P 0) "ZRemRangeByRankCtx" [Ctx; P 0; P 1; P 2];
  KV "ZRemRangeByScoreCtx" ["string"; "int64"; "int64"] (P 0) "ZRemRangeByScoreCtx" [Ctx; P 0; P 1; P 2];
  KV "ZRevRangeCtx" ["string"; "int64"; "int64"] (P 0) "ZRevRangeCtx" [Ctx; P 0; P 1; P 2];
  KV "ZRevRangeByScoreWithScoresCtx" ["string"; "int64"; "int64"] (P 0) "ZRevRangeByScoreWithScoresCtx" [Ctx; P 0; P 1; P 2];
  KV "ZRevRangeByScoreWithScoresAndLimitCtx" ["string"; "int64"; "int64"; "int"; "int"] (P 0) "ZRevRangeByScoreWithScoresAndLimitCtx" [Ctx; P 0; P 1; P 2; P 3; P 4];
  KV "ZRevRankCtx" ["string"; "string"] (P 0) "ZRevRankCtx" [Ctx; P 0; P 1];
  KV "ZRevRangeWithScoresCtx" ["string"; "int64"; "int64"] (P 0) "ZRevRangeWithScoresCtx" [Ctx; P 0; P 1; P 2];
  KV "ZScoreCtx" ["string"; "string"] (P 0) "ZScoreCtx" [Ctx; P 0; P 1]
].

(* ---- plain forms: a rule instead of a table ---- *)
Fixpoint std_args (i : nat) (params : list string) : list aexp :=
  match params with
  | [] => []
  | t :: r => (if String.prefix "..." t then PV i else P i) :: std_args (S i) r
  end.

Definition aexp_simple_eqb (a b : aexp) : bool :=
  match a, b with
  | Bg, Bg | Ctx, Ctx => true
  | P i, P j | PV i, PV j => Nat.eqb i j
  | _, _ => false
  end.

Fixpoint all2b {A} (f : A -> A -> bool) (l1 l2 : list A) : bool :=
  match l1, l2 with
  | [], [] => true
  | a :: r1, b :: r2 => f a b && all2b f r1 r2
  | _, _ => false
  end.

Definition params_of (r : row) : list string :=
  match r with Cmd _ ps _ | Deleg _ ps _ _ => ps | _ => [] end.

(* a plain method is documented to be its context form under context.Background(), same arguments in order *)
Definition plain_ok (ctx_tbl : list row) (r : row) : bool :=
  match r with
  | Deleg name ps target args =>
      String.eqb target (name ++ "Ctx") &&
      all2b aexp_simple_eqb args (Bg :: std_args 0 ps) &&
      existsb (fun c => String.eqb (row_name c) target && all2b String.eqb (params_of c) ps) ctx_tbl
  | Other name _ => String.eqb name "String"          (* fmt.Stringer, not a command *)
  | _ => false
  end.

(* ... and every context form has its plain twin *)
Definition has_plain (plain_tbl : list row) (c : row) : bool :=
  existsb (fun p => String.eqb (row_name p ++ "Ctx") (row_name c)) plain_tbl.

Definition kv_plain_ok (ctx_tbl : list kvrow) (r : kvrow) : bool :=
  match r with
  | KVDeleg name ps target args =>
      String.eqb target (name ++ "Ctx") &&
      all2b aexp_simple_eqb args (Bg :: std_args 0 ps) &&
      existsb (fun c => String.eqb (kvrow_name c) target) ctx_tbl
  | _ => false
  end.

(* ---- one go-redis client per address (clientmanager.go, clustermanager.go) ----
   Documented: the client of a wrapper instance is looked up under r.Addr in a process-wide manager and, when
   absent, created from a FRESH red.Options / red.ClusterOptions literal whose Addr(s) is r.Addr: nothing of the
   options is shared between the clients of different addresses, so a client re-dials its own address. *)
Definition client_rest : list string :=
  ["var tlsConfig * tls.Config";
   "if r.tls { tlsConfig = & tls.Config { InsecureSkipVerify : true , } ; }";
   "client.AddHook ( durationHook )";
   "return client , nil"].

Definition client_spec : list clientrow := [
  ClientNew "getClient" "clientManager" "r.Addr" "NewClient" "Options" true
    [("Addr", "r.Addr"); ("Password", "r.Pass"); ("DB", "defaultDatabase"); ("MaxRetries", "maxRetries");
     ("MinIdleConns", "idleConns"); ("TLSConfig", "tlsConfig")] ["durationHook"] client_rest;
  ClientNew "getCluster" "clusterManager" "r.Addr" "NewClusterClient" "ClusterOptions" true
    [("Addrs", "[ ] string { r.Addr }"); ("Password", "r.Pass"); ("MaxRetries", "maxRetries");
     ("MinIdleConns", "idleConns"); ("TLSConfig", "tlsConfig")] ["durationHook"] client_rest
].

(* ---- script cache (scriptcache.go): GetSha reads the current map; SetSha copies it, sets the entry, publishes ---- *)
Definition scriptcache_spec : list (string * list string) := [
  ("GetScriptCache", ["once.Do ( func ( ) { scriptCache = & ScriptCache { } ; scriptCache.Store ( make ( Map ) ) ; } )";
                      "return scriptCache"]);
  ("ScriptCache.GetSha", ["cache := c.Load ( ).( Map )"; "ret , ok := cache [ p0 ]"; "return ret , ok"]);
  ("ScriptCache.SetSha", ["lock.Lock ( )"; "defer lock.Unlock ( )"; "cache := c.Load ( ).( Map )";
                          "newCache := make ( Map )"; "for k , v := range cache { newCache [ k ] = v ; }";
                          "newCache [ p0 ] = p1"; "c.Store ( newCache )"])
].

(* ---- construction (redis.go New/With*/getRedis, config.go NewRedis, blockingnode.go, kv store.go New) ----
   Documented: New(addr, opts...) starts from {Addr: addr, Type: node, no password, no TLS, own breaker named addr}
   and applies the options in order; WithCluster / WithPass(p) / WithTLS set exactly Type / Pass / tls;
   Config.NewRedis passes EACH of type=cluster, a non-empty Pass and Tls on, independently of the others;
   getRedis picks the cluster or the node manager by Type; CreateBlockingNode builds a NEW go-redis client
   (dedicated connection: PoolSize 1) for r's address, type and password -- never the pooled one -- and the bridge's
   Close closes that client only; kv.New builds one wrapper per shard from the shard's Config (cfg.NewRedis())
   and registers it with the shard's weight.
   CreateBlockingNode passes r's TLS setting on exactly as getClient / getCluster do (TLSConfig from r.tls in both
   branches; defect D18, repaired in 10db6ba): a blocking node dials with TLS iff the instance was built WithTLS(). *)
Definition construction_spec : list (string * list string) := [
  ("New", ["r := & Redis { Addr : p0 , Type : NodeType , brk : breaker.New ( breaker.WithName ( p0 ) ) , }"; "for _ , opt := range p1 { opt ( r ) ; }"; "return r"]);
  ("WithCluster", ["return func ( r * Redis ) { r.Type = ClusterType ; }"]);
  ("WithPass", ["return func ( r * Redis ) { r.Pass = p0 ; }"]);
  ("WithTLS", ["return func ( r * Redis ) { r.tls = true ; }"]);
  ("getRedis", ["switch p0.Type { case ClusterType : return getCluster ( p0 ) ; case NodeType : return getClient ( p0 ) ; default : return nil , fmt.Errorf ( ""\u4E0D\u652F\u6301 redis \u7C7B\u578B '%s'"" , p0.Type ) ; }"]);
  ("Config.NewRedis", ["var opts [ ] Option"; "if c.Type == ClusterType { opts = append ( opts , WithCluster ( ) ) ; }"; "if len ( c.Pass ) > 0 { opts = append ( opts , WithPass ( c.Pass ) ) ; }"; "if c.Tls { opts = append ( opts , WithTLS ( ) ) ; }"; "return New ( c.Host , opts ... )"]);
  ("CreateBlockingNode", ["timeout := readWriteTimeout + blockingQueryTimeout"; "var tlsConfig * tls.Config"; "if p0.tls { tlsConfig = & tls.Config { InsecureSkipVerify : true } ; }"; "switch p0.Type { case NodeType : client := red.NewClient ( & red.Options { Addr : p0.Addr , Password : p0.Pass , DB : defaultDatabase , MaxRetries : maxRetries , PoolSize : 1 , MinIdleConns : 1 , ReadTimeout : timeout , TLSConfig : tlsConfig , } ) ; return & clientBridge { client } , nil ; case ClusterType : client := red.NewClusterClient ( & red.ClusterOptions { Addrs : [ ] string { p0.Addr } , Password : p0.Pass , MaxRetries : maxRetries , PoolSize : 1 , MinIdleConns : 1 , ReadTimeout : timeout , TLSConfig : tlsConfig , } ) ; return & clusterBridge { client } , nil ; default : return nil , fmt.Errorf ( ""\u672A\u77E5\u7684 redis \u7C7B\u578B: %s"" , p0.Type ) ; }"]);
  ("clientBridge.Close", ["if err := b.Client.Close ( ) ; err != nil { logx.Errorf ( ""\u5173\u95ED redis \u5BA2\u6237\u7AEF\u65F6\u51FA\u9519\uFF1A%s"" , err ) ; }"]);
  ("clusterBridge.Close", ["if err := b.ClusterClient.Close ( ) ; err != nil { logx.Errorf ( ""\u5173\u95ED redis \u96C6\u7FA4\u5BA2\u6237\u7AEF\u65F6\u51FA\u9519\uFF1A%s"" , err ) ; }"]);
  ("kv.New", ["if len ( p0 ) == 0 || cache.TotalWeights ( p0 ) <= 0 { log.Fatal ( ""\u672A\u914D\u7F6E\u7F13\u5B58\u8282\u70B9"" ) ; }"; "dispatcher := hash.NewConsistentHash ( )"; "for _ , cfg := range p0 { rds := cfg.NewRedis ( ) ; dispatcher.AddWithWeight ( rds , cfg.Weight ) ; }"; "return kvStore { dispatcher : dispatcher , }"])
].

(* ---- metrics (metrics.go, hook.go): the duration histogram is labelled by command, the error counter by command
   and error class; every use hands over exactly as many label values as declared (the Prometheus client panics on
   any other number once the agent is enabled) ---- *)
Definition metrics_spec : list (string * nat * list nat) := [
  ("metricReqDur", 1%nat, [1%nat; 1%nat]);      (* AfterProcess, AfterProcessPipeline *)
  ("metricReqErr", 2%nat, [2%nat; 2%nat])
].
