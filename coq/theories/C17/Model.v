(* C17 Model: transcription of lib/collection/cache.go (sequential calls; the expiry callback
   `cache.Del(key)` is run to completion before the next call, as the driver does).
   data = association list key |-> value (a Go map: order immaterial), the LRU list holds keys front
   (most recent) to back, the timer is a parameter: the C10 wheel model (Exec/Proofs instantiate it with
   C10.Model.step_ok on a 300-slot, one-second wheel) or the C10 abstract timer.  The jittered
   duration `unstableExpiry.AroundDuration(expire)` is an explicit input j of every Set/Take. *)
From God Require Import Base.Prelude.
From God Require C10.Model.
Import C10.Model.

Section Cache.
  Context {TS : Type}.
  Variable tstep : TS -> op -> TS * fired.      (* one handler of the timing wheel's run loop *)

  Record cache := mkC {
    c_data : list (nat * nat);
    c_lru : option (nat * list nat);             (* None: emptyLru (no limit); Some (limit, keys) *)
    c_expire : Z;
    c_ts : TS
  }.

  (* TimingWheel.SetTimer/MoveTimer/RemoveTimer as called by the cache: the error is ignored, a
     non-positive delay is rejected by the argument gate (C10 c10_bad_args) *)
  Definition timer_call (ts : TS) (o : op) : TS * fired :=
    match o with
    | OSet _ _ d | OMove _ d => if (d <=? 0)%Z then (ts, []) else tstep ts o
    | _ => tstep ts o
    end.

  Definition mem (k : nat) (l : list nat) : bool := existsb (Nat.eqb k) l.
  Definition del (k : nat) (l : list nat) : list nat := filter (fun x => negb (x =? k)) l.

  (* onEvict (l.173-176) *)
  Definition on_evict (k : nat) (dt : list (nat * nat) * TS) : list (nat * nat) * TS :=
    (aremove Nat.eqb k (fst dt), fst (timer_call (snd dt) (ORemove k))).

  (* keyLru.add (l.222-236) *)
  Definition lru_add (k : nat) (c : cache) : cache :=
    match c_lru c with
    | None => c
    | Some (limit, l) =>
        if mem k l then mkC (c_data c) (Some (limit, k :: del k l)) (c_expire c) (c_ts c)
        else
          let l' := k :: l in
          if limit <? length l' then
            let old := last l' k in                                       (* evicts.Back() *)
            let dt := on_evict old (c_data c, c_ts c) in
            mkC (fst dt) (Some (limit, removelast l')) (c_expire c) (snd dt)
          else mkC (c_data c) (Some (limit, l')) (c_expire c) (c_ts c)
    end.

  (* keyLru.remove (l.238-242) *)
  Definition lru_remove (k : nat) (c : cache) : cache :=
    match c_lru c with
    | None => c
    | Some (limit, l) =>
        if mem k l then
          let dt := on_evict k (c_data c, c_ts c) in
          mkC (fst dt) (Some (limit, del k l)) (c_expire c) (snd dt)
        else c
    end.

  (* Del (l.76-82) *)
  Definition cdel (k : nat) (c : cache) : cache :=
    let c1 := lru_remove k (mkC (aremove Nat.eqb k (c_data c)) (c_lru c) (c_expire c) (c_ts c)) in
    mkC (c_data c1) (c_lru c1) (c_expire c1) (fst (timer_call (c_ts c1) (ORemove k))).

  (* the wheel's callbacks: Del(key) for every fired task, in callback order *)
  Definition expire_all (f : fired) (c : cache) : cache := fold_left (fun c kv => cdel (fst kv) c) f c.

  (* SetWithExpire (l.102-115); j = AroundDuration(expire) *)
  Definition cset (k v : nat) (j : Z) (c : cache) : cache :=
    let ok := match alookup Nat.eqb k (c_data c) with Some _ => true | None => false end in
    let c1 := lru_add k (mkC (aset Nat.eqb k v (c_data c)) (c_lru c) (c_expire c) (c_ts c)) in
    let tf := timer_call (c_ts c1) (if ok then OMove k j else OSet k v j) in
    expire_all (snd tf) (mkC (c_data c1) (c_lru c1) (c_expire c1) (fst tf)).

  (* doGet (l.161-171) *)
  Definition cget (k : nat) (c : cache) : cache * option nat :=
    match alookup Nat.eqb k (c_data c) with
    | Some v => (lru_add k c, Some v)
    | None => (c, None)
    end.

  (* Take with a single caller (l.120-153): fetch = Some v | None (error) *)
  Definition ctake (k : nat) (fetch : option nat) (j : Z) (c : cache) : cache * option nat * bool :=
    match cget k c with
    | (c1, Some v) => (c1, Some v, false)
    | (c1, None) =>
        match cget k c1 with                       (* double check inside barrier.Do *)
        | (c2, Some v) => (c2, Some v, false)
        | (c2, None) =>
            match fetch with
            | None => (c2, None, true)
            | Some v => (cset k v j c2, Some v, true)
            end
        end
    end.

  Definition ctick (c : cache) : cache :=
    let tf := tstep (c_ts c) OTick in
    expire_all (snd tf) (mkC (c_data c) (c_lru c) (c_expire c) (fst tf)).

  Inductive cop :=
  | KSet (k v : nat) (j : Z)                   (* Set: expire = c_expire, jittered to j *)
  | KSetX (k v : nat) (e j : Z)                (* SetWithExpire e, jittered to j *)
  | KGet (k : nat)
  | KDel (k : nat)
  | KTake (k : nat) (fetch : option nat) (j : Z)
  | KTick.

  (* result: value returned (Get/Take), whether Take ran the fetch function *)
  Definition cstep (c : cache) (o : cop) : cache * option nat * bool :=
    match o with
    | KSet k v j | KSetX k v _ j => (cset k v j c, None, false)
    | KGet k => let (c', r) := cget k c in (c', r, false)
    | KDel k => (cdel k c, None, false)
    | KTake k f j => ctake k f j c
    | KTick => (ctick c, None, false)
    end.

  (* NewCache + WithLimit (l.41-73, 179-185) *)
  Definition cnew (expire : Z) (limit : Z) (ts : TS) : cache :=
    mkC [] (if (0 <? limit)%Z then Some (Z.to_nat limit, []) else None) expire ts.
End Cache.

Arguments cache : clear implicits.

(* the cache on the C10 wheel model: time.Second, 300 slots (> 0, so `step` never panics) *)
Definition second : positive := 1000000000.
Definition cache_slots : nat := 300.
Definition wheel_cache := cache st.
(* NewCache uses interval `second`; the drivers may build the same cache on a wheel with a larger interval *)
Definition wnew_at (I : positive) (expire limit : Z) : wheel_cache := cnew expire limit (init I cache_slots).
Definition wnew (expire limit : Z) : wheel_cache := wnew_at second expire limit.
Definition wstep : wheel_cache -> cop -> wheel_cache * option nat * bool := cstep step_ok.
