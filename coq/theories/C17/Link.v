(* C17 Link: constants and call skeletons regenerated from lib/collection/cache.go are the ones the
   model and the statement use. *)
From God Require Import Base.Prelude C17.Model C17.Exec.
From Coq Require Import QArith String.
From GodGen Require C17_Gen.

(* the expiry wheel has 300 slots (NewTimingWheel(time.Second, slots, ...)) *)
Lemma link_slots : C17_Gen.cache_slots = Z.of_nat cache_slots.
Proof. reflexivity. Qed.

(* +-5% jitter: the window [0.95 e, 1.05 e] of the statement and of Exec.lo_ticks/hi_ticks *)
Lemma link_deviation : (C17_Gen.expiryDeviation == 5 # 100)%Q.
Proof. reflexivity. Qed.

Lemma link_window e : (0 <= e)%Z ->
  lo_ticks e = Z.to_nat ((e * 95 / 100 - tol) / ns) /\ hi_ticks e = Z.to_nat ((e * 105 / 100 + tol) / ns).
Proof. intros _. split; reflexivity. Qed.

Local Open Scope string_scope.

(* SetWithExpire: store + lru.add under the lock, then jitter, then MoveTimer (key existed) or SetTimer *)
Lemma link_set_calls : C17_Gen.set_calls =
  ["c.lock.Lock"; "c.lruCache.add"; "c.lock.Unlock"; "c.unstableExpiry.AroundDuration";
   "c.timingWheel.MoveTimer"; "c.timingWheel.SetTimer"].
Proof. reflexivity. Qed.

Lemma link_del_calls : C17_Gen.del_calls =
  ["c.lock.Lock"; "delete"; "c.lruCache.remove"; "c.lock.Unlock"; "c.timingWheel.RemoveTimer"].
Proof. reflexivity. Qed.

Lemma link_doGet_calls : C17_Gen.doGet_calls = ["c.lock.Lock"; "defer:c.lock.Unlock"; "c.lruCache.add"; "return"].
Proof. reflexivity. Qed.

Lemma link_onEvict_calls : C17_Gen.onEvict_calls = ["delete"; "c.timingWheel.RemoveTimer"].
Proof. reflexivity. Qed.

Lemma link_lru_calls :
  C17_Gen.lru_add_calls = ["k.evicts.MoveToFront"; "return"; "k.evicts.PushFront"; "k.evicts.Len"; "k.removeOldest"] /\
  C17_Gen.lru_removeElement_calls = ["k.evicts.Remove"; "delete"; "k.onEvict"].
Proof. split; reflexivity. Qed.

(* Take: get; else barrier.Do { get again; fetch; on error return; Set } *)
Lemma link_take_calls : C17_Gen.take_calls =
  ["c.doGet"; "c.stats.IncrHit"; "return"; "c.doGet"; "return"; "fetch"; "return"; "c.Set"; "return";
   "c.barrier.Do"; "return"; "c.stats.IncrMiss"; "return"; "c.stats.IncrHit"; "return"].
Proof. reflexivity. Qed.

(* the wheel's callback is cache.Del *)
Lemma link_new_calls : C17_Gen.new_calls =
  ["make"; "syncx.NewSingleFlight"; "mathx.NewUnstable"; "opt"; "len"; "newCacheStat"; "return";
   "cache.Del"; "NewTimingWheel"; "return"; "return"].
Proof. reflexivity. Qed.
