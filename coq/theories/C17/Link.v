(* C17 Link: constants and call skeletons regenerated from lib/collection/cache.go are the ones the
   model and the statement use. *)
From God Require Import Base.Prelude C17.Model C17.Exec.
From Coq Require Import QArith String.
From GodGen Require C17_Gen.

(* the expiry wheel has 300 slots (NewTimingWheel(time.Second, slots, ...)) *)
Lemma link_slots : C17_Gen.cache_slots = Z.of_nat cache_slots.
Proof. reflexivity. Qed.

(* +-5% jitter: the window [0.95 e, 1.05 e] of the statement and of Exec.lo_ticks/hi_ticks *)
Lemma link_deviation : (C17_Gen.expiryDeviation == 5 # 100)%Q.
Proof. reflexivity. Qed.

Lemma link_window I e : (0 <= e)%Z ->
  lo_ticks I e = Z.to_nat ((e * 95 / 100 - tol) / I) /\ hi_ticks I e = Z.to_nat ((e * 105 / 100 + tol) / I).
Proof. intros _. split; reflexivity. Qed.

Local Open Scope string_scope.

(* SetWithExpire: store + lru.add under the lock, then jitter, then MoveTimer (key existed) or SetTimer *)
Lemma link_set_calls : C17_Gen.set_calls =
  ["c.lock.Lock"; "c.lruCache.add"; "c.lock.Unlock"; "c.unstableExpiry.AroundDuration";
   "c.timingWheel.MoveTimer"; "c.timingWheel.SetTimer"].
Proof. reflexivity. Qed.

Lemma link_del_calls : C17_Gen.del_calls =
  ["c.lock.Lock"; "delete"; "c.lruCache.remove"; "c.lock.Unlock"; "c.timingWheel.RemoveTimer"].
Proof. reflexivity. Qed.

Lemma link_doGet_calls : C17_Gen.doGet_calls = ["c.lock.Lock"; "defer:c.lock.Unlock"; "c.lruCache.add"; "return"].
Proof. reflexivity. Qed.

Lemma link_onEvict_calls : C17_Gen.onEvict_calls = ["delete"; "c.timingWheel.RemoveTimer"].
Proof. reflexivity. Qed.

Lemma link_lru_calls :
  C17_Gen.lru_add_calls = ["k.evicts.MoveToFront"; "return"; "k.evicts.PushFront"; "k.evicts.Len"; "k.removeOldest"] /\
  C17_Gen.lru_removeElement_calls = ["k.evicts.Remove"; "delete"; "k.onEvict"].
Proof. split; reflexivity. Qed.

(* Take: get; else barrier.Do { get again; fetch; on error return; Set } *)
Lemma link_take_calls : C17_Gen.take_calls =
  ["c.doGet"; "c.stats.IncrHit"; "return"; "c.doGet"; "return"; "fetch"; "return"; "c.Set"; "return";
   "c.barrier.Do"; "return"; "c.stats.IncrMiss"; "return"; "c.stats.IncrHit"; "return"].
Proof. reflexivity. Qed.

(* the wheel's callback is cache.Del *)
Lemma link_new_calls : C17_Gen.new_calls =
  ["make"; "syncx.NewSingleFlight"; "mathx.NewUnstable"; "opt"; "len"; "newCacheStat"; "return";
   "cache.Del"; "NewTimingWheel"; "return"; "return"].
Proof. reflexivity. Qed.

(* keyLru.remove goes through removeElement (list, index and onEvict together) *)
Lemma link_lru_remove_calls : C17_Gen.lru_remove_calls = ["k.removeElement"].
Proof. reflexivity. Qed.

(* the authenticator looks the token up inside cache.Take; an error passes in non-strict mode *)
Lemma link_auth_validate_calls : C17_Gen.auth_validate_calls =
  ["a.store.HGet"; "return"; "a.cache.Take"; "err.Error"; "status.Error"; "return"; "return"; "status.Error"; "return"; "return"].
Proof. reflexivity. Qed.

(* the jitter is one float64 expression on one Float64() draw *)
Lemma link_around_calls : C17_Gen.around_calls =
  ["u.lock.Lock"; "u.r.Float64"; "float64"; "time.Duration"; "u.lock.Unlock"; "return"].
Proof. reflexivity. Qed.

Local Close Scope string_scope.
Local Open Scope Z_scope.

(* the deviation the jitter model (Exec.jit_exact) uses is the regenerated constant: 1/20 *)
Lemma link_dev : dev_num = 1 /\ dev_den = 20.
Proof. split; reflexivity. Qed.

Lemma link_dev_gen : (C17_Gen.expiryDeviation == dev_num # Z.to_pos dev_den)%Q.
Proof. reflexivity. Qed.

(* exact arithmetic on the draw: for every base >= 0 and every draw 0 <= d < 2^63 the jittered value lies
   within [95%, 105%] of the base (rounded down) -- the window the statement speaks of *)
Lemma jit_exact_window base d : 0 <= base -> 0 <= d < two63 ->
  base * 95 / 100 <= jit_exact base d <= base * 105 / 100.
Proof.
  intros Hb Hd. unfold jit_exact. destruct link_dev as [-> ->]. unfold two63 in *.
  set (P := 9223372036854775808) in *. assert (HP : 0 < P) by (unfold P; lia).
  assert (E1 : base * 95 / 100 = base * 19 * P / (20 * P)).
  { rewrite Z.div_mul_cancel_r by lia. replace (base * 95) with (base * 19 * 5) by lia.
    replace 100 with (20 * 5) by lia. rewrite Z.div_mul_cancel_r by lia. reflexivity. }
  assert (E2 : base * 105 / 100 = base * 21 * P / (20 * P)).
  { rewrite Z.div_mul_cancel_r by lia. replace (base * 105) with (base * 21 * 5) by lia.
    replace 100 with (20 * 5) by lia. rewrite Z.div_mul_cancel_r by lia. reflexivity. }
  rewrite E1, E2. split; apply Z.div_le_mono; try lia; nia.
Qed.
