(* C17 Proofs: bounded-LRU invariants of the cache model, for ANY timer behaviour (the lemmas are
   parametric in the wheel handler `tstep`), and the expiry arithmetic over the C10 abstract timer. *)
From God Require Import Base.Prelude C17.Model.
From God Require C10.Model C10.Spec C10.Proofs.
From Coq Require Import Sorting.Permutation.
Import C10.Model.

(* ---------- lists ---------- *)
Lemma in_del k x l : In x (del k l) <-> In x l /\ x <> k.
Proof. unfold del. rewrite filter_In. destruct (Nat.eqb_spec x k); simpl; intuition congruence. Qed.

Lemma NoDup_del k l : NoDup l -> NoDup (del k l).
Proof. apply NoDup_filter. Qed.

Lemma mem_In k l : mem k l = true <-> In k l.
Proof.
  unfold mem. rewrite existsb_exists. split.
  - intros (x & Hx & E). apply Nat.eqb_eq in E. subst. assumption.
  - intro H. exists k. split; [assumption|apply Nat.eqb_refl].
Qed.

Lemma length_del k l : NoDup l -> In k l -> S (length (del k l)) = length l.
Proof.
  induction l as [|a r IH]; intros Hnd Hin; [destruct Hin|]. inversion Hnd; subst. simpl.
  destruct (Nat.eqb_spec a k) as [->|Hne]; simpl.
  - f_equal. unfold del. clear IH Hnd Hin H2. induction r as [|b r IH]; simpl; [reflexivity|].
    destruct (Nat.eqb_spec b k) as [->|]; simpl; [exfalso; apply H1; left; reflexivity|].
    f_equal. apply IH. intro; apply H1; right; assumption.
  - f_equal. apply IH; [assumption|]. destruct Hin; [congruence|assumption].
Qed.

Lemma removelast_last_split (l : list nat) d : l <> [] -> l = removelast l ++ [last l d].
Proof. apply app_removelast_last. Qed.

Lemma NoDup_removelast (l : list nat) d : l <> [] -> NoDup l ->
  NoDup (removelast l) /\ ~ In (last l d) (removelast l) /\
  (forall x, In x l <-> In x (removelast l) \/ x = last l d) /\ S (length (removelast l)) = length l.
Proof.
  intros Hne Hnd. pose proof (removelast_last_split l d Hne) as E.
  set (r := removelast l) in *. set (z := last l d) in *. rewrite E in Hnd.
  split; [eapply C10.Proofs.NoDup_app_l; exact Hnd|].
  split.
  - intro Hin. apply NoDup_remove_2 in Hnd. apply Hnd. rewrite app_nil_r. assumption.
  - split.
    + intro x. transitivity (In x (r ++ [z])); [rewrite <- E; tauto|]. rewrite in_app_iff. simpl. intuition.
    + transitivity (length (r ++ [z])); [rewrite app_length; simpl; lia|rewrite <- E; reflexivity].
Qed.

(* keys of an association list *)
Definition keys (m : list (nat * nat)) : list nat := map fst m.

Lemma keys_aremove k m x : In x (keys (aremove Nat.eqb k m)) <-> In x (keys m) /\ x <> k.
Proof. apply C10.Proofs.aremove_keys. Qed.

Lemma keys_aset k v m x : In x (keys (aset Nat.eqb k v m)) <-> x = k \/ In x (keys m).
Proof.
  unfold aset, keys. simpl. rewrite (C10.Proofs.aremove_keys k m x). unfold keys.
  destruct (Nat.eq_dec x k); intuition.
Qed.

Section Any.
  Context {TS : Type}.
  Variable tstep : TS -> op -> TS * fired.

  (* data and LRU list hold the same keys, without duplicates, at most `limit` of them *)
  Definition CInv (c : cache TS) : Prop :=
    NoDup (keys (c_data c)) /\
    match c_lru c with
    | None => True
    | Some (limit, l) => 0 < limit /\ NoDup l /\ length l <= limit /\ forall k, In k l <-> In k (keys (c_data c))
    end.

  Lemma CInv_new e lim ts : CInv (cnew e lim ts).
  Proof.
    unfold cnew, CInv; simpl. split; [constructor|]. destruct (Z.ltb_spec 0 lim); [|exact I].
    split; [lia|]. split; [constructor|]. split; [simpl; lia|]. intro k; simpl; tauto.
  Qed.

  (* the general step: state after `data[k] = v` but before lru.add *)
  Definition PreInv (k : nat) (c : cache TS) : Prop :=
    NoDup (keys (c_data c)) /\ In k (keys (c_data c)) /\
    match c_lru c with
    | None => True
    | Some (limit, l) => 0 < limit /\ NoDup l /\ length l <= limit /\
                         forall x, x <> k -> (In x l <-> In x (keys (c_data c)))
    end.

  Lemma lru_add_inv k c : PreInv k c -> CInv (lru_add tstep k c).
  Proof.
    intros (Hnd & Hk & H). unfold lru_add, CInv. destruct (c_lru c) as [[limit l]|] eqn:El; [|simpl; rewrite El; auto].
    destruct H as (Hlim & Hndl & Hlen & Hsame).
    destruct (mem k l) eqn:Hm; cbn [c_data c_lru c_expire c_ts fst snd].
    - apply mem_In in Hm. split; [assumption|]. split; [assumption|]. split.
      + constructor; [rewrite in_del; tauto|apply NoDup_del; assumption].
      + split; [simpl; rewrite <- (length_del k l Hndl Hm) in Hlen; lia|].
        intro x. simpl. rewrite in_del. destruct (Nat.eq_dec x k) as [->|Hne]; [tauto|].
        rewrite (Hsame x Hne). intuition congruence.
    - assert (Hnk : ~ In k l) by (rewrite <- mem_In; congruence).
      change (length (k :: l)) with (S (length l)).
      destruct (Nat.ltb_spec limit (S (length l))) as [Hfull|Hroom]; unfold on_evict; cbn [c_data c_lru c_expire c_ts fst snd].
      + assert (Hne : k :: l <> []) by discriminate.
        assert (Hnd' : NoDup (k :: l)) by (constructor; assumption).
        destruct (NoDup_removelast (k :: l) k Hne Hnd') as (H1 & H2 & H3 & H4).
        set (old := last (k :: l) k) in *. set (keep := removelast (k :: l)) in *.
        assert (Hold : old <> k /\ In old l).
        { destruct l as [|a r]; [simpl in *; lia|]. assert (Ho : In old (a :: r)).
          { unfold old. change (last (k :: a :: r) k) with (last (a :: r) k).
            destruct (exists_last (l := a :: r)) as (r' & z & E); [discriminate|]. rewrite E. rewrite last_last.
            apply in_or_app. right. left. reflexivity. }
          split; [intro E; rewrite E in Ho; contradiction|assumption]. }
        split; [apply C10.Proofs.aremove_NoDup; assumption|].
        split; [assumption|]. split; [assumption|]. split; [change (length (k :: l)) with (S (length l)) in H4; lia|].
        intro x. rewrite keys_aremove. specialize (H3 x). simpl in H3.
        destruct (Nat.eq_dec x old) as [->|Hxo]; [tauto|].
        destruct (Nat.eq_dec x k) as [->|Hxk].
        * intuition.
        * rewrite <- (Hsame x Hxk). intuition congruence.
      + split; [assumption|]. split; [assumption|]. split; [constructor; assumption|]. split; [simpl; lia|].
        intro x. simpl. destruct (Nat.eq_dec x k) as [->|Hne]; [tauto|]. rewrite <- (Hsame x Hne). intuition congruence.
  Qed.

  Lemma CInv_pre k c : CInv c -> In k (keys (c_data c)) -> PreInv k c.
  Proof.
    intros (Hnd & H) Hk. split; [assumption|]. split; [assumption|].
    destruct (c_lru c) as [[limit l]|]; [|exact I]. destruct H as (H1 & H2 & H3 & H4). repeat split; try assumption; apply H4.
  Qed.

  Lemma cdel_inv k c : CInv c -> CInv (cdel tstep k c).
  Proof.
    intros (Hnd & H). unfold cdel, lru_remove, CInv. simpl.
    destruct (c_lru c) as [[limit l]|] eqn:El; simpl.
    - destruct H as (Hlim & Hndl & Hlen & Hsame). destruct (mem k l) eqn:Hm; simpl.
      + split; [repeat apply C10.Proofs.aremove_NoDup; assumption|]. split; [assumption|].
        split; [apply NoDup_del; assumption|]. split.
        * apply mem_In in Hm. rewrite <- (length_del k l Hndl Hm) in Hlen. lia.
        * intro x. rewrite in_del, !keys_aremove, Hsame. tauto.
      + split; [apply C10.Proofs.aremove_NoDup; assumption|]. split; [assumption|]. split; [assumption|].
        split; [assumption|]. intro x. rewrite keys_aremove, <- Hsame. 
        assert (~ In k l) by (rewrite <- mem_In; congruence). intuition congruence.
    - split; [apply C10.Proofs.aremove_NoDup; assumption|exact I].
  Qed.

  Lemma expire_all_inv f : forall c, CInv c -> CInv (expire_all tstep f c).
  Proof. induction f as [|kv f IH]; intros c H; simpl; [assumption|]. apply IH. apply cdel_inv. assumption. Qed.

  Lemma CInv_ts c ts' : CInv c -> CInv (mkC (c_data c) (c_lru c) (c_expire c) ts').
  Proof. intro H. exact H. Qed.

  Lemma cset_inv k v j c : CInv c -> CInv (cset tstep k v j c).
  Proof.
    intros (Hnd & H). unfold cset. apply expire_all_inv.
    set (c0 := mkC (aset Nat.eqb k v (c_data c)) (c_lru c) (c_expire c) (c_ts c)).
    assert (HP : PreInv k c0).
    { unfold PreInv, c0; cbn [c_data c_lru]. split; [apply C10.Proofs.aset_NoDup; assumption|]. split; [apply (keys_aset k v); auto|].
      destruct (c_lru c) as [[limit l]|]; [|exact I]. destruct H as (H1 & H2 & H3 & H4). repeat split; try assumption.
      - intro Hx. apply (keys_aset k v). right. apply H4. assumption.
      - intro Hx. apply (keys_aset k v) in Hx as [->|Hx]; [congruence|]. apply H4. assumption. }
    apply (lru_add_inv k c0) in HP. exact HP.
  Qed.

  Lemma cget_inv k c : CInv c -> CInv (fst (cget tstep k c)).
  Proof.
    intro H. unfold cget. destruct (alookup Nat.eqb k (c_data c)) as [v|] eqn:E; simpl; [|assumption].
    apply lru_add_inv. apply CInv_pre; [assumption|]. apply C10.Proofs.al_In in E.
    apply in_map_iff. exists (k, v). auto.
  Qed.

  Lemma cstep_inv c o : CInv c -> CInv (fst (fst (cstep tstep c o))).
  Proof.
    intro H. destruct o; simpl.
    - apply cset_inv; assumption.
    - apply cset_inv; assumption.
    - pose proof (cget_inv k c H). destruct (cget tstep k c). assumption.
    - apply cdel_inv; assumption.
    - unfold ctake. pose proof (cget_inv k c H) as H1. destruct (cget tstep k c) as [c1 [v|]]; simpl in *; [assumption|].
      pose proof (cget_inv k c1 H1) as H2. destruct (cget tstep k c1) as [c2 [v|]]; simpl in *; [assumption|].
      destruct fetch; simpl; [apply cset_inv|]; assumption.
    - unfold ctick. apply expire_all_inv. exact H.
  Qed.

  Fixpoint crun (c : cache TS) (ops : list cop) : cache TS :=
    match ops with [] => c | o :: r => crun (fst (fst (cstep tstep c o))) r end.

  Lemma crun_inv ops : forall c, CInv c -> CInv (crun c ops).
  Proof. induction ops as [|o r IH]; intros c H; simpl; [assumption|]. apply IH. apply cstep_inv. assumption. Qed.

  (* size bound *)
  Lemma CInv_size c limit l : CInv c -> c_lru c = Some (limit, l) -> length (c_data c) <= limit.
  Proof.
    intros (Hnd & H) El. rewrite El in H. destruct H as (_ & Hndl & Hlen & Hsame).
    assert (Permutation l (keys (c_data c))) by (apply NoDup_Permutation; assumption).
    apply Permutation_length in H. unfold keys in H. rewrite map_length in H. lia.
  Qed.

End Any.

(* ---------- one-step facts about LRU order, Take, and the timer hand-off ---------- *)
Section Steps.
  Context {TS : Type}.
  Variable tstep : TS -> op -> TS * fired.

  (* a stored key that is set, read or taken moves to the front; the others keep their order *)
  Lemma lru_touch k c limit l : c_lru c = Some (limit, l) -> mem k l = true ->
    c_lru (lru_add tstep k c) = Some (limit, k :: del k l) /\ c_data (lru_add tstep k c) = c_data c.
  Proof. intros El Hm. unfold lru_add. rewrite El, Hm. split; reflexivity. Qed.

  (* a new key on a full list: the victim is the LAST (least recently used) key, and only it *)
  Lemma lru_evicts_last k c limit l : c_lru c = Some (limit, l) -> mem k l = false -> limit < S (length l) ->
    c_lru (lru_add tstep k c) = Some (limit, removelast (k :: l)) /\
    c_data (lru_add tstep k c) = aremove Nat.eqb (last (k :: l) k) (c_data c).
  Proof.
    intros El Hm Hfull. unfold lru_add. rewrite El, Hm. change (length (k :: l)) with (S (length l)).
    destruct (Nat.ltb_spec limit (S (length l))); [|lia]. split; reflexivity.
  Qed.

  Lemma lru_room k c limit l : c_lru c = Some (limit, l) -> mem k l = false -> S (length l) <= limit ->
    c_lru (lru_add tstep k c) = Some (limit, k :: l) /\ c_data (lru_add tstep k c) = c_data c.
  Proof.
    intros El Hm Hroom. unfold lru_add. rewrite El, Hm. change (length (k :: l)) with (S (length l)).
    destruct (Nat.ltb_spec limit (S (length l))); [lia|]. split; reflexivity.
  Qed.

  (* Take *)
  Lemma take_cached k f j c v : alookup Nat.eqb k (c_data c) = Some v ->
    ctake tstep k f j c = (lru_add tstep k c, Some v, false).
  Proof. intro H. unfold ctake, cget. rewrite H. reflexivity. Qed.

  Lemma take_error_not_cached k j c : alookup Nat.eqb k (c_data c) = None ->
    ctake tstep k None j c = (c, None, true).
  Proof. intro H. unfold ctake, cget. rewrite H. rewrite H. reflexivity. Qed.

  Lemma take_fetches_once_and_caches k v j c : alookup Nat.eqb k (c_data c) = None ->
    ctake tstep k (Some v) j c = (cset tstep k v j c, Some v, true).
  Proof. intro H. unfold ctake, cget. rewrite H. rewrite H. reflexivity. Qed.

  (* what SetWithExpire asks of the wheel: SetTimer(k, v, j) for a new key, MoveTimer(k, j) for a stored one *)
  Definition set_request (k v : nat) (j : Z) (c : cache TS) : op :=
    match alookup Nat.eqb k (c_data c) with Some _ => OMove k j | None => OSet k v j end.

  Lemma cset_hands_jitter_to_wheel k v j c :
    let c1 := lru_add tstep k (mkC (aset Nat.eqb k v (c_data c)) (c_lru c) (c_expire c) (c_ts c)) in
    let tf := timer_call tstep (c_ts c1) (set_request k v j c) in
    cset tstep k v j c = expire_all tstep (snd tf) (mkC (c_data c1) (c_lru c1) (c_expire c1) (fst tf)).
  Proof. unfold cset, set_request. destruct (alookup Nat.eqb k (c_data c)); reflexivity. Qed.
End Steps.

(* expiry window arithmetic: a jittered delay within [95%, 105%] of e, at least one wheel interval I, is due
   (C10: T + floor(j / I)) no earlier than floor(0.95 e / I) and no later than floor(1.05 e / I) ticks *)
Lemma window_arith (I : positive) (e j : Z) :
  (e * 95 / 100 <= j <= e * 105 / 100)%Z -> (Z.pos I <= j)%Z ->
  Z.to_nat (e * 95 / 100 / Z.pos I) <= steps_of I j <= Z.to_nat (e * 105 / 100 / Z.pos I) /\
  1 <= steps_of I j.
Proof.
  intros [Hlo Hhi] Hj. unfold steps_of. split; [split|].
  - apply Z2Nat.inj_le; [apply Z.div_pos; lia | apply Z.div_pos; lia | apply Z.div_le_mono; lia].
  - apply Z2Nat.inj_le; [apply Z.div_pos; lia | apply Z.div_pos; lia | apply Z.div_le_mono; lia].
  - apply (C10.Proofs.steps_ge_1 I j Hj).
Qed.

(* the limit chosen at construction never changes *)
Section Limit.
  Context {TS : Type}.
  Variable tstep : TS -> op -> TS * fired.
  Variable L : nat.
  Definition has_limit (c : cache TS) : Prop := exists l, c_lru c = Some (L, l).

  Lemma hl_add k c : has_limit c -> has_limit (lru_add tstep k c).
  Proof. intros [l E]. unfold has_limit, lru_add. rewrite E. destruct (mem k l); [cbn [c_lru]; eauto|]. destruct (L <? length (k :: l)); cbn [c_lru]; eauto. Qed.
  Lemma hl_del k c : has_limit c -> has_limit (cdel tstep k c).
  Proof. intros [l E]. unfold has_limit, cdel, lru_remove. cbn [c_lru c_data c_expire c_ts]. rewrite E. destruct (mem k l); cbn [c_lru]; eauto. Qed.
  Lemma hl_exp f : forall c, has_limit c -> has_limit (expire_all tstep f c).
  Proof. induction f as [|kv f IH]; intros c H; simpl; [assumption|]. apply IH. apply hl_del. assumption. Qed.
  Lemma hl_set k v j c : has_limit c -> has_limit (cset tstep k v j c).
  Proof.
    intro H. unfold cset. apply hl_exp.
    pose proof (hl_add k (mkC (aset Nat.eqb k v (c_data c)) (c_lru c) (c_expire c) (c_ts c)) H) as [l E].
    exists l. exact E.
  Qed.
  Lemma hl_get k c : has_limit c -> has_limit (fst (cget tstep k c)).
  Proof. intro H. unfold cget. destruct (alookup Nat.eqb k (c_data c)); simpl; [apply hl_add|]; assumption. Qed.
  Lemma hl_step c o : has_limit c -> has_limit (fst (fst (cstep tstep c o))).
  Proof.
    intro H. destruct o; simpl.
    - apply hl_set; assumption.
    - apply hl_set; assumption.
    - pose proof (hl_get k c H). destruct (cget tstep k c). assumption.
    - apply hl_del; assumption.
    - unfold ctake. pose proof (hl_get k c H) as G1. destruct (cget tstep k c) as [c1 [v|]]; simpl in *; [assumption|].
      pose proof (hl_get k c1 G1) as G2. destruct (cget tstep k c1) as [c2 [v|]]; simpl in *; [assumption|].
      destruct fetch; simpl; [apply hl_set|]; assumption.
    - unfold ctick. apply hl_exp. exact H.
  Qed.
  Lemma hl_run ops : forall c, has_limit c -> has_limit (crun tstep c ops).
  Proof. induction ops as [|o r IH]; intros c H; simpl; [assumption|]. apply IH. apply hl_step. assumption. Qed.
End Limit.

Lemma size_bound {TS} (tstep : TS -> op -> TS * fired) expire limit ts ops : (0 < limit)%Z ->
  length (c_data (crun tstep (cnew expire limit ts) ops)) <= Z.to_nat limit.
Proof.
  intro Hl. pose proof (crun_inv tstep ops _ (CInv_new tstep expire limit ts)) as HI.
  destruct (hl_run tstep (Z.to_nat limit) ops (cnew expire limit ts)) as [l El].
  { unfold has_limit, cnew; cbn [c_lru]. destruct (Z.ltb_spec 0 limit); [eauto|lia]. }
  apply (CInv_size _ _ _ HI El).
Qed.

(* ====================================================================================================
   The cache on the C10 wheel model: every stored entry has a pending timer, and an entry is dropped
   for age exactly at the tick its last Set asked for (composition with the C10 refinement invariant).
   ==================================================================================================== *)
Section Expiry.
  Import C10.Spec C10.Proofs.
  Variable I : positive.

  Notation ws := step_ok.
  Notation WC := (cache st).

  (* calls within the property: the jittered delay is at least one wheel interval *)
  Definition valid_cop (o : cop) : Prop :=
    match o with
    | KSet _ _ j | KSetX _ _ _ j | KTake _ _ j => (Z.pos I <= j)%Z
    | _ => True
    end.

  Lemma tc_remove ts sp k : Inv ts sp ->
    Inv (fst (timer_call ws ts (ORemove k))) (mkSp (sp_T sp) (aremove Nat.eqb k (sp_timers sp))) /\
    interval (fst (timer_call ws ts (ORemove k))) = interval ts.
  Proof.
    intro H. unfold timer_call. split; [exact (Inv_remove ts sp k H) | exact (step_ok_interval ts (ORemove k))].
  Qed.

  (* c' was obtained from c by removals only: its keys are keys of c and their abstract timers are untouched *)
  Definition Surv (c c' : WC) (sp sp' : sst) : Prop :=
    Inv (c_ts c') sp' /\ interval (c_ts c') = interval (c_ts c) /\ sp_T sp' = sp_T sp /\
    forall k, In k (keys (c_data c')) ->
      In k (keys (c_data c)) /\ alookup Nat.eqb k (sp_timers sp') = alookup Nat.eqb k (sp_timers sp).

  Lemma Surv_same c c' sp : c_data c' = c_data c -> c_ts c' = c_ts c -> Inv (c_ts c) sp -> Surv c c' sp sp.
  Proof.
    intros E1 E2 H. unfold Surv. rewrite E1, E2. split; [assumption|]. split; [reflexivity|]. split; [reflexivity|].
    intros k Hk. split; [assumption|reflexivity].
  Qed.

  Lemma Surv_refl c sp : Inv (c_ts c) sp -> Surv c c sp sp.
  Proof. apply Surv_same; reflexivity. Qed.

  Lemma Surv_trans c1 c2 c3 sp1 sp2 sp3 : Surv c1 c2 sp1 sp2 -> Surv c2 c3 sp2 sp3 -> Surv c1 c3 sp1 sp3.
  Proof.
    intros (A1 & A2 & A3 & A4) (B1 & B2 & B3 & B4). split; [assumption|]. split; [congruence|]. split; [congruence|].
    intros k Hk. destruct (B4 k Hk) as [Hk2 E2]. destruct (A4 k Hk2) as [Hk1 E1]. split; [assumption|congruence].
  Qed.

  Lemma Surv_evict k (c : WC) sp : Inv (c_ts c) sp ->
    let dt := on_evict ws k (c_data c, c_ts c) in
    forall lru', exists sp', Surv c (mkC (fst dt) lru' (c_expire c) (snd dt)) sp sp'.
  Proof.
    intros H dt lru'. destruct (tc_remove (c_ts c) sp k H) as [H1 H2].
    exists (mkSp (sp_T sp) (aremove Nat.eqb k (sp_timers sp))). unfold dt, on_evict; cbn [fst snd c_data c_ts].
    split; [exact H1|]. split; [exact H2|]. split; [reflexivity|].
    intros x Hx. apply keys_aremove in Hx as [Hx Hne]. split; [assumption|]. cbn [sp_timers].
    rewrite al_aremove. destruct (Nat.eqb_spec x k); [congruence|reflexivity].
  Qed.

  Lemma Surv_lru_add k (c : WC) sp : Inv (c_ts c) sp -> exists sp', Surv c (lru_add ws k c) sp sp'.
  Proof.
    intro H. unfold lru_add. destruct (c_lru c) as [[limit l]|]; [|exists sp; apply Surv_refl; assumption].
    destruct (mem k l); [exists sp; apply Surv_same; [reflexivity|reflexivity|assumption]|].
    destruct (limit <? length (k :: l)); [|exists sp; apply Surv_same; [reflexivity|reflexivity|assumption]].
    apply (Surv_evict (last (k :: l) k) c sp H).
  Qed.

  Lemma Surv_lru_remove k (c : WC) sp : Inv (c_ts c) sp -> exists sp', Surv c (lru_remove ws k c) sp sp'.
  Proof.
    intro H. unfold lru_remove. destruct (c_lru c) as [[limit l]|]; [|exists sp; apply Surv_refl; assumption].
    destruct (mem k l); [|exists sp; apply Surv_refl; assumption]. apply (Surv_evict k c sp H).
  Qed.

  Lemma Surv_cdel k (c : WC) sp : Inv (c_ts c) sp -> exists sp', Surv c (cdel ws k c) sp sp'.
  Proof.
    intro H. unfold cdel.
    set (c0 := mkC (aremove Nat.eqb k (c_data c)) (c_lru c) (c_expire c) (c_ts c)).
    assert (S0 : Surv c c0 sp sp).
    { split; [exact H|]. split; [reflexivity|]. split; [reflexivity|]. intros x Hx. unfold c0 in Hx; cbn [c_data] in Hx.
      apply keys_aremove in Hx. split; [tauto|reflexivity]. }
    destruct (Surv_lru_remove k c0 sp H) as (sp1 & S1).
    set (c1 := lru_remove ws k c0) in *. pose proof S1 as (H1 & _).
    destruct (tc_remove (c_ts c1) sp1 k H1) as [H2 H3].
    exists (mkSp (sp_T sp1) (aremove Nat.eqb k (sp_timers sp1))).
    apply (Surv_trans c c0 _ sp sp _ S0). apply (Surv_trans c0 c1 _ sp sp1 _ S1).
    split; [exact H2|]. split; [exact H3|]. split; [reflexivity|]. cbn [c_data sp_timers].
    intros x Hx. split; [assumption|]. rewrite al_aremove. destruct (Nat.eqb_spec x k) as [->|]; [|reflexivity].
    (* x = k is not a key of c1: it was removed from the data before lru_remove *)
    exfalso. destruct S1 as (_ & _ & _ & S1). destruct (S1 k Hx) as [Hk _]. unfold c0 in Hk; cbn [c_data] in Hk.
    apply keys_aremove in Hk. tauto.
  Qed.

  Lemma Surv_expire_all f : forall (c : WC) sp, Inv (c_ts c) sp -> exists sp', Surv c (expire_all ws f c) sp sp'.
  Proof.
    induction f as [|kv f IH]; intros c sp H; simpl; [exists sp; apply Surv_refl; assumption|].
    destruct (Surv_cdel (fst kv) c sp H) as (sp1 & S1). pose proof S1 as (H1 & _).
    destruct (IH _ sp1 H1) as (sp2 & S2). exists sp2. eapply Surv_trans; eassumption.
  Qed.

  (* exactly the named keys disappear *)
  Lemma cdel_keys k (c : WC) x : In x (keys (c_data (cdel ws k c))) <-> In x (keys (c_data c)) /\ x <> k.
  Proof.
    unfold cdel, lru_remove. cbn [c_data c_lru c_expire c_ts].
    destruct (c_lru c) as [[limit l]|]; cbn [c_data].
    - destruct (mem k l); unfold on_evict; cbn [c_data fst snd]; rewrite ?keys_aremove; tauto.
    - rewrite keys_aremove. tauto.
  Qed.

  Lemma expire_all_keys f : forall (c : WC) x,
    In x (keys (c_data (expire_all ws f c))) <-> In x (keys (c_data c)) /\ ~ In x (map fst f).
  Proof.
    induction f as [|kv f IH]; intros c x; simpl; [tauto|]. rewrite IH, cdel_keys. intuition congruence.
  Qed.

  (* ---- ghost: tick count and, per key, (tick, jittered delay) of its last Set ---- *)
  Definition ghost := list (nat * (nat * Z)).

  Definition gstep (T : nat) (G : ghost) (c : WC) (o : cop) : nat * ghost :=
    match o with
    | KSet k _ j | KSetX k _ _ j => (T, aset Nat.eqb k (T, j) G)
    | KTake k (Some _) j =>
        match alookup Nat.eqb k (c_data c) with None => (T, aset Nat.eqb k (T, j) G) | Some _ => (T, G) end
    | KTick => (S T, G)
    | _ => (T, G)
    end.

  Fixpoint grun (T : nat) (G : ghost) (c : WC) (ops : list cop) : nat * ghost * WC :=
    match ops with
    | [] => (T, G, c)
    | o :: r => let (T', G') := gstep T G c o in grun T' G' (fst (fst (cstep ws c o))) r
    end.

  (* the invariant: C10's wheel invariant against an abstract timer in which every stored key is due
     exactly floor(j / I) ticks after its last Set *)
  Definition J (c : WC) (sp : sst) (T : nat) (G : ghost) : Prop :=
    Inv (c_ts c) sp /\ interval (c_ts c) = I /\ sp_T sp = T /\ CInv c /\
    forall k, In k (keys (c_data c)) ->
      exists v T0 j, alookup Nat.eqb k G = Some (T0, j) /\
                     alookup Nat.eqb k (sp_timers sp) = Some (v, T0 + steps_of I j).

  Lemma J_surv c c' sp sp' T G : J c sp T G -> Surv c c' sp sp' -> CInv c' -> J c' sp' T G.
  Proof.
    intros (H1 & H2 & H3 & H4 & H5) (S1 & S2 & S3 & S4) HC. split; [assumption|]. split; [congruence|]. split; [congruence|].
    split; [assumption|]. intros k Hk. destruct (S4 k Hk) as [Hk' E]. destruct (H5 k Hk') as (v & T0 & j & G1 & G2).
    exists v, T0, j. split; [assumption|congruence].
  Qed.

  Lemma in_keys_al (m : list (nat * nat)) k : In k (keys m) <-> alookup Nat.eqb k m <> None.
  Proof.
    unfold keys. split.
    - intros Hin E. apply al_None in E. contradiction.
    - intro Hne. destruct (in_dec Nat.eq_dec k (map fst m)) as [|Hn]; [assumption|]. apply al_None in Hn. contradiction.
  Qed.

  Lemma lru_add_has k (c : WC) : PreInv k c -> In k (keys (c_data (lru_add ws k c))).
  Proof.
    intro HP. pose proof (lru_add_inv ws k c HP) as (_ & HC). destruct HP as (Hnd & Hk & H).
    unfold lru_add in *. destruct (c_lru c) as [[limit l]|] eqn:El; [|rewrite El in *; assumption].
    destruct H as (Hlim & Hndl & Hlen & Hsame).
    destruct (mem k l) eqn:Hm; cbn [c_data c_lru] in *; [assumption|].
    assert (Hnk : ~ In k l) by (rewrite <- mem_In; congruence).
    change (length (k :: l)) with (S (length l)) in *.
    destruct (Nat.ltb_spec limit (S (length l))) as [Hfull|Hroom]; unfold on_evict in *; cbn [c_data c_lru fst snd] in *; [|assumption].
    apply keys_aremove. split; [assumption|].
    destruct l as [|a r]; [simpl in *; lia|]. change (last (k :: a :: r) k) with (last (a :: r) k).
    destruct (exists_last (l := a :: r)) as (r' & z & E); [discriminate|]. rewrite E, last_last.
    intros ->. apply Hnk. rewrite E. apply in_or_app. right. left. reflexivity.
  Qed.

  (* SetWithExpire with a delay of at least one interval *)
  Lemma J_cset c sp T G k v j : J c sp T G -> (Z.pos I <= j)%Z ->
    exists sp', J (cset ws k v j c) sp' T (aset Nat.eqb k (T, j) G).
  Proof.
    intros HJ Hj. pose proof HJ as (H1 & H2 & H3 & H4 & H5).
    unfold cset. set (ok := match alookup Nat.eqb k (c_data c) with Some _ => true | None => false end).
    set (c0 := mkC (aset Nat.eqb k v (c_data c)) (c_lru c) (c_expire c) (c_ts c)).
    assert (HP : PreInv k c0).
    { destruct H4 as (Hnd & H). unfold PreInv, c0; cbn [c_data c_lru]. split; [apply aset_NoDup; assumption|].
      split; [apply (keys_aset k v); auto|].
      destruct (c_lru c) as [[limit l]|]; [|exact Logic.I]. destruct H as (A1 & A2 & A3 & A4). repeat split; try assumption.
      - intro Hx. apply (keys_aset k v). right. apply A4. assumption.
      - intro Hx. apply (keys_aset k v) in Hx as [->|Hx]; [congruence|]. apply A4. assumption. }
    pose proof (lru_add_inv ws k c0 HP) as HC1. pose proof (lru_add_has k c0 HP) as Hk1.
    destruct (Surv_lru_add k c0 sp H1) as (sp1 & S1). set (c1 := lru_add ws k c0) in *.
    destruct S1 as (I1 & I2 & I3 & I4). cbn [c_ts c0] in I2.
    assert (Hj0 : (j <=? 0)%Z = false) by (apply Z.leb_gt; lia).
    assert (Hint1 : interval (c_ts c1) = I) by congruence.
    (* the timer call *)
    assert (Hstep : exists sp2, Inv (fst (timer_call ws (c_ts c1) (if ok then OMove k j else OSet k v j))) sp2 /\
              snd (timer_call ws (c_ts c1) (if ok then OMove k j else OSet k v j)) = [] /\
              interval (fst (timer_call ws (c_ts c1) (if ok then OMove k j else OSet k v j))) = I /\
              sp_T sp2 = T /\
              (exists v', alookup Nat.eqb k (sp_timers sp2) = Some (v', T + steps_of I j)) /\
              (forall x, x <> k -> alookup Nat.eqb x (sp_timers sp2) = alookup Nat.eqb x (sp_timers sp1))).
    { destruct ok eqn:Eok; unfold timer_call; rewrite Hj0.
      - (* the key was stored: it has a timer, MoveTimer re-schedules it *)
        assert (Hin : In k (keys (c_data c))).
        { unfold ok in Eok. apply in_keys_al. destruct (alookup Nat.eqb k (c_data c)); congruence. }
        destruct (H5 k Hin) as (v0 & T0 & j0 & _ & Hsp). destruct (I4 k Hk1) as [_ E1]. rewrite Hsp in E1.
        destruct (Inv_move (c_ts c1) sp1 k j I1) as [M1 M2]; [rewrite Hint1; assumption|].
        rewrite Hint1 in M1. cbn [sstep] in M1. rewrite E1 in M1. cbn [fst] in M1.
        eexists. split; [exact M1|]. split; [exact M2|].
        split; [rewrite (step_ok_interval (c_ts c1) (OMove k j)); assumption|].
        cbn [sp_T sp_timers]. split; [congruence|]. split.
        + exists v0. rewrite al_aset, Nat.eqb_refl. do 2 f_equal. congruence.
        + intros x Hx. rewrite al_aset. destruct (Nat.eqb_spec x k); [congruence|reflexivity].
      - pose proof (Inv_set (c_ts c1) sp1 k v j I1) as M1. rewrite Hint1 in M1. cbn [sstep fst] in M1.
        assert (Ecl : clamp I j = j) by (unfold clamp; destruct (Z.ltb_spec j (Z.pos I)); [lia|reflexivity]).
        rewrite Ecl in M1. eexists. split; [exact M1|]. split; [reflexivity|].
        split; [rewrite (step_ok_interval (c_ts c1) (OSet k v j)); assumption|].
        cbn [sp_T sp_timers]. split; [congruence|]. split.
        + exists v. rewrite al_aset, Nat.eqb_refl. do 2 f_equal. congruence.
        + intros x Hx. rewrite al_aset. destruct (Nat.eqb_spec x k); [congruence|reflexivity]. }
    destruct Hstep as (sp2 & M1 & M2 & M3 & M4 & (v' & M5) & M6).
    rewrite M2. cbn [expire_all fold_left]. exists sp2.
    split; [exact M1|]. split; [exact M3|]. split; [exact M4|]. split; [exact HC1|]. cbn [c_data].
    intros x Hx. destruct (Nat.eq_dec x k) as [->|Hne].
    - exists v', T, j. rewrite al_aset, Nat.eqb_refl. auto.
    - destruct (I4 x Hx) as [Hx0 E1]. unfold c0 in Hx0; cbn [c_data] in Hx0.
      apply (keys_aset k v) in Hx0 as [->|Hx0]; [congruence|].
      destruct (H5 x Hx0) as (v0 & T0 & j0 & G1 & G2). exists v0, T0, j0.
      rewrite al_aset. destruct (Nat.eqb_spec x k); [congruence|]. split; [assumption|]. rewrite (M6 x Hne). congruence.
  Qed.

  Lemma J_cget c sp T G k : J c sp T G -> exists sp', J (fst (cget ws k c)) sp' T G.
  Proof.
    intro HJ. pose proof HJ as (H1 & _ & _ & H4 & _). pose proof (cget_inv ws k c H4) as HC.
    unfold cget in *. destruct (alookup Nat.eqb k (c_data c)); cbn [fst] in *; [|eauto].
    destruct (Surv_lru_add k c sp H1) as (sp' & S). exists sp'. apply (J_surv c _ sp sp' T G HJ S HC).
  Qed.

  Lemma J_cdel c sp T G k : J c sp T G -> exists sp', J (cdel ws k c) sp' T G.
  Proof.
    intro HJ. pose proof HJ as (H1 & _ & _ & H4 & _). destruct (Surv_cdel k c sp H1) as (sp' & S).
    exists sp'. apply (J_surv c _ sp sp' T G HJ S). apply cdel_inv. assumption.
  Qed.

  (* a tick: exactly the stored keys whose due tick it is are dropped *)
  Lemma J_ctick c sp T G : J c sp T G ->
    (exists sp', J (ctick ws c) sp' (S T) G) /\
    forall k, In k (keys (c_data c)) ->
      (In k (keys (c_data (ctick ws c))) <->
       forall v T0 j, alookup Nat.eqb k G = Some (T0, j) -> alookup Nat.eqb k (sp_timers sp) = Some (v, T0 + steps_of I j) ->
                      T0 + steps_of I j <> S T).
  Proof.
    intros (H1 & H2 & H3 & H4 & H5). unfold ctick.
    destruct (Inv_tick (c_ts c) sp H1) as [HI Hperm]. cbn [step_ok].
    set (tf := on_tick (c_ts c)) in *. cbn [sstep fst snd] in HI, Hperm. rewrite H3 in HI, Hperm.
    set (sp1 := mkSp (S T) (filter (fun kv => negb (due_now (S T) kv)) (sp_timers sp))) in *.
    set (c1 := mkC (c_data c) (c_lru c) (c_expire c) (fst tf)).
    pose proof (i_G _ _ H1) as HG.
    assert (Hfired : forall k, In k (map fst (snd tf)) <-> exists v, alookup Nat.eqb k (sp_timers sp) = Some (v, S T)).
    { intro k. split.
      - intro Hin. apply in_map_iff in Hin as [[k' v] [E Hin]]. cbn [fst] in E; subst k'.
        apply (Permutation_in _ Hperm) in Hin. apply in_map_iff in Hin as [[k2 [v2 d2]] [E Hin]].
        unfold task_of in E; cbn [fst snd] in E. inversion E; subst. apply filter_In in Hin as [Hin Hd].
        unfold due_now in Hd; cbn [snd] in Hd. apply Nat.eqb_eq in Hd. subst d2. exists v.
        apply (In_al _ _ _ HG). assumption.
      - intros [v Hl]. apply al_In in Hl.
        assert (Hs : In (k, v) (map task_of (filter (due_now (S T)) (sp_timers sp)))).
        { apply in_map_iff. exists (k, (v, S T)). split; [reflexivity|]. apply filter_In. split; [assumption|].
          unfold due_now; cbn [snd]. apply Nat.eqb_refl. }
        apply (Permutation_in _ (Permutation_sym Hperm)) in Hs. apply in_map_iff. exists (k, v). auto. }
    destruct (Surv_expire_all (snd tf) c1 sp1 HI) as (sp' & S).
    assert (Hkeys : forall k, In k (keys (c_data (expire_all ws (snd tf) c1))) <->
                               In k (keys (c_data c)) /\ ~ In k (map fst (snd tf))).
    { intro k. rewrite expire_all_keys. reflexivity. }
    split.
    - exists sp'. destruct S as (S1 & S2 & S3 & S4). split; [assumption|]. split.
      { rewrite S2. unfold c1; cbn [c_ts]. rewrite <- H2. apply (step_ok_interval (c_ts c) OTick). }
      split; [rewrite S3; reflexivity|]. split; [apply expire_all_inv; exact H4|].
      intros k Hk. destruct (S4 k Hk) as [_ E]. apply Hkeys in Hk as [Hk Hnf].
      destruct (H5 k Hk) as (v & T0 & j & G1 & G2). exists v, T0, j. split; [assumption|].
      rewrite E. unfold sp1; cbn [sp_timers]. rewrite (al_filter _ _ _ HG), G2. unfold due_now; cbn [snd fst].
      destruct (Nat.eqb_spec (T0 + steps_of I j) (S T)) as [Ed|]; [|reflexivity].
      exfalso. apply Hnf. apply Hfired. exists v. rewrite G2, Ed. reflexivity.
    - intros k Hk. rewrite Hkeys. destruct (H5 k Hk) as (v & T0 & j & G1 & G2). split.
      + intros [_ Hnf] v' T0' j' G1' G2' Ed. apply Hnf. apply Hfired. exists v'. rewrite G2', Ed. reflexivity.
      + intro Hall. split; [assumption|]. intro Hf. apply Hfired in Hf as [v' Hl]. rewrite G2 in Hl. inversion Hl.
        apply (Hall v T0 j G1 G2). assumption.
  Qed.

  Lemma J_step c sp T G o : J c sp T G -> valid_cop o ->
    exists sp', J (fst (fst (cstep ws c o))) sp' (fst (gstep T G c o)) (snd (gstep T G c o)).
  Proof.
    intros HJ Hv. destruct o; cbn [cstep gstep fst snd valid_cop] in *.
    - apply (J_cset c sp T G k v j HJ Hv).
    - apply (J_cset c sp T G k v j HJ Hv).
    - pose proof (J_cget c sp T G k HJ) as [sp' H]. destruct (cget ws k c). eauto.
    - apply (J_cdel c sp T G k HJ).
    - destruct (alookup Nat.eqb k (c_data c)) as [v|] eqn:E.
      + rewrite (take_cached ws k fetch j c v E). cbn [fst].
        destruct (J_cget c sp T G k HJ) as [sp' H]. unfold cget in H. rewrite E in H. cbn [fst] in H.
        exists sp'. destruct fetch; exact H.
      + destruct fetch as [v|].
        * rewrite (take_fetches_once_and_caches ws k v j c E). cbn [fst snd]. apply (J_cset c sp T G k v j HJ Hv).
        * rewrite (take_error_not_cached ws k j c E). cbn [fst snd]. eauto.
    - destruct (J_ctick c sp T G HJ) as [[sp' H] _]. eauto.
  Qed.

  Lemma J_run ops : forall c sp T G, J c sp T G -> Forall valid_cop ops ->
    exists sp', J (snd (grun T G c ops)) sp' (fst (fst (grun T G c ops))) (snd (fst (grun T G c ops))).
  Proof.
    induction ops as [|o r IH]; intros c sp T G HJ Hv; simpl; [eauto|].
    inversion Hv; subst. destruct (J_step c sp T G o HJ H1) as (sp' & HJ').
    destruct (gstep T G c o) as [T' G']. cbn [fst snd] in HJ'. apply (IH _ sp' T' G' HJ' H2).
  Qed.

  Lemma grun_crun ops : forall T G c, snd (grun T G c ops) = crun ws c ops.
  Proof. induction ops as [|o r IH]; intros; simpl; [reflexivity|]. destruct (gstep T G c o). apply IH. Qed.

  Lemma J_init e lim : J (wnew_at I e lim) sinit 0 [].
  Proof.
    unfold wnew_at. split; [apply Inv_init; unfold cache_slots; lia|]. split; [reflexivity|]. split; [reflexivity|].
    split; [apply (CInv_new ws)|]. unfold cnew; cbn [c_data]. intros k Hk. destruct Hk.
  Qed.

  (* every stored entry has a pending timer in the wheel *)
  Lemma stored_has_timer e lim ops k : Forall valid_cop ops ->
    In k (keys (c_data (crun ws (wnew_at I e lim) ops))) ->
    timer k (timers (c_ts (crun ws (wnew_at I e lim) ops))) <> None.
  Proof.
    intros Hv Hk. destruct (J_run ops _ _ _ _ (J_init e lim) Hv) as (sp & HJ & _ & _ & _ & H5).
    rewrite grun_crun in *. destruct (H5 k Hk) as (v & T0 & j & _ & Hsp).
    apply (i_F _ _ HJ k). congruence.
  Qed.

  (* a stored entry is not yet due; and the next tick drops it iff that tick is the one its last Set asked for *)
  Lemma expiry_history e lim ops : Forall valid_cop ops ->
    let r := grun 0 [] (wnew_at I e lim) ops in
    let T := fst (fst r) in let G := snd (fst r) in let c := snd r in
    forall k, In k (keys (c_data c)) ->
      exists T0 j, alookup Nat.eqb k G = Some (T0, j) /\ T < T0 + steps_of I j /\
                   (In k (keys (c_data (ctick ws c))) <-> T0 + steps_of I j <> S T).
  Proof.
    intros Hv r T G c k Hk. destruct (J_run ops _ _ _ _ (J_init e lim) Hv) as (sp & HJ).
    fold r in HJ. fold T G c in HJ. pose proof HJ as (H1 & H2 & H3 & H4 & H5).
    destruct (H5 k Hk) as (v & T0 & j & G1 & G2). exists T0, j. split; [assumption|]. split.
    - destruct (timer k (timers (c_ts c))) as [[p id]|] eqn:Et; [|exfalso; apply (i_F _ _ H1 k); congruence].
      destruct (i_B _ _ H1 k p id Et) as (_ & _ & e0 & _ & _ & _ & _ & Hsp). rewrite G2 in Hsp. inversion Hsp.
      pose proof (ahead_range (nslots (c_ts c)) (ticked (c_ts c)) p (i_N _ _ H1)). lia.
    - destruct (J_ctick c sp T G HJ) as [_ Hd]. rewrite (Hd k Hk). split.
      + intro Hall. apply (Hall v T0 j G1 G2).
      + intros Hne v' T0' j' G1' G2'. rewrite G1 in G1'. inversion G1'; subst. assumption.
  Qed.
End Expiry.
