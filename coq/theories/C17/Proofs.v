(* C17 Proofs: bounded-LRU invariants of the cache model, for ANY timer behaviour (the lemmas are
   parametric in the wheel handler `tstep`), and the expiry arithmetic over the C10 abstract timer. *)
From God Require Import Base.Prelude C17.Model.
From God Require C10.Model C10.Spec C10.Proofs.
From Coq Require Import Sorting.Permutation.
Import C10.Model.

(* ---------- lists ---------- *)
Lemma in_del k x l : In x (del k l) <-> In x l /\ x <> k.
Proof. unfold del. rewrite filter_In. destruct (Nat.eqb_spec x k); simpl; intuition congruence. Qed.

Lemma NoDup_del k l : NoDup l -> NoDup (del k l).
Proof. apply NoDup_filter. Qed.

Lemma mem_In k l : mem k l = true <-> In k l.
Proof.
  unfold mem. rewrite existsb_exists. split.
  - intros (x & Hx & E). apply Nat.eqb_eq in E. subst. assumption.
  - intro H. exists k. split; [assumption|apply Nat.eqb_refl].
Qed.

Lemma length_del k l : NoDup l -> In k l -> S (length (del k l)) = length l.
Proof.
  induction l as [|a r IH]; intros Hnd Hin; [destruct Hin|]. inversion Hnd; subst. simpl.
  destruct (Nat.eqb_spec a k) as [->|Hne]; simpl.
  - f_equal. unfold del. clear IH Hnd Hin H2. induction r as [|b r IH]; simpl; [reflexivity|].
    destruct (Nat.eqb_spec b k) as [->|]; simpl; [exfalso; apply H1; left; reflexivity|].
    f_equal. apply IH. intro; apply H1; right; assumption.
  - f_equal. apply IH; [assumption|]. destruct Hin; [congruence|assumption].
Qed.

Lemma removelast_last_split (l : list nat) d : l <> [] -> l = removelast l ++ [last l d].
Proof. apply app_removelast_last. Qed.

Lemma NoDup_removelast (l : list nat) d : l <> [] -> NoDup l ->
  NoDup (removelast l) /\ ~ In (last l d) (removelast l) /\
  (forall x, In x l <-> In x (removelast l) \/ x = last l d) /\ S (length (removelast l)) = length l.
Proof.
  intros Hne Hnd. pose proof (removelast_last_split l d Hne) as E.
  set (r := removelast l) in *. set (z := last l d) in *. rewrite E in Hnd.
  split; [eapply C10.Proofs.NoDup_app_l; exact Hnd|].
  split.
  - intro Hin. apply NoDup_remove_2 in Hnd. apply Hnd. rewrite app_nil_r. assumption.
  - split.
    + intro x. transitivity (In x (r ++ [z])); [rewrite <- E; tauto|]. rewrite in_app_iff. simpl. intuition.
    + transitivity (length (r ++ [z])); [rewrite app_length; simpl; lia|rewrite <- E; reflexivity].
Qed.

(* keys of an association list *)
Definition keys (m : list (nat * nat)) : list nat := map fst m.

Lemma keys_aremove k m x : In x (keys (aremove Nat.eqb k m)) <-> In x (keys m) /\ x <> k.
Proof. apply C10.Proofs.aremove_keys. Qed.

Lemma keys_aset k v m x : In x (keys (aset Nat.eqb k v m)) <-> x = k \/ In x (keys m).
Proof.
  unfold aset, keys. simpl. rewrite (C10.Proofs.aremove_keys k m x). unfold keys.
  destruct (Nat.eq_dec x k); intuition.
Qed.

Section Any.
  Context {TS : Type}.
  Variable tstep : TS -> op -> TS * fired.

  (* data and LRU list hold the same keys, without duplicates, at most `limit` of them *)
  Definition CInv (c : cache TS) : Prop :=
    NoDup (keys (c_data c)) /\
    match c_lru c with
    | None => True
    | Some (limit, l) => 0 < limit /\ NoDup l /\ length l <= limit /\ forall k, In k l <-> In k (keys (c_data c))
    end.

  Lemma CInv_new e lim ts : CInv (cnew e lim ts).
  Proof.
    unfold cnew, CInv; simpl. split; [constructor|]. destruct (Z.ltb_spec 0 lim); [|exact I].
    split; [lia|]. split; [constructor|]. split; [simpl; lia|]. intro k; simpl; tauto.
  Qed.

  (* the general step: state after `data[k] = v` but before lru.add *)
  Definition PreInv (k : nat) (c : cache TS) : Prop :=
    NoDup (keys (c_data c)) /\ In k (keys (c_data c)) /\
    match c_lru c with
    | None => True
    | Some (limit, l) => 0 < limit /\ NoDup l /\ length l <= limit /\
                         forall x, x <> k -> (In x l <-> In x (keys (c_data c)))
    end.

  Lemma lru_add_inv k c : PreInv k c -> CInv (lru_add tstep k c).
  Proof.
    intros (Hnd & Hk & H). unfold lru_add, CInv. destruct (c_lru c) as [[limit l]|] eqn:El; [|simpl; rewrite El; auto].
    destruct H as (Hlim & Hndl & Hlen & Hsame).
    destruct (mem k l) eqn:Hm; cbn [c_data c_lru c_expire c_ts fst snd].
    - apply mem_In in Hm. split; [assumption|]. split; [assumption|]. split.
      + constructor; [rewrite in_del; tauto|apply NoDup_del; assumption].
      + split; [simpl; rewrite <- (length_del k l Hndl Hm) in Hlen; lia|].
        intro x. simpl. rewrite in_del. destruct (Nat.eq_dec x k) as [->|Hne]; [tauto|].
        rewrite (Hsame x Hne). intuition congruence.
    - assert (Hnk : ~ In k l) by (rewrite <- mem_In; congruence).
      change (length (k :: l)) with (S (length l)).
      destruct (Nat.ltb_spec limit (S (length l))) as [Hfull|Hroom]; unfold on_evict; cbn [c_data c_lru c_expire c_ts fst snd].
      + assert (Hne : k :: l <> []) by discriminate.
        assert (Hnd' : NoDup (k :: l)) by (constructor; assumption).
        destruct (NoDup_removelast (k :: l) k Hne Hnd') as (H1 & H2 & H3 & H4).
        set (old := last (k :: l) k) in *. set (keep := removelast (k :: l)) in *.
        assert (Hold : old <> k /\ In old l).
        { destruct l as [|a r]; [simpl in *; lia|]. assert (Ho : In old (a :: r)).
          { unfold old. change (last (k :: a :: r) k) with (last (a :: r) k).
            destruct (exists_last (l := a :: r)) as (r' & z & E); [discriminate|]. rewrite E. rewrite last_last.
            apply in_or_app. right. left. reflexivity. }
          split; [intro E; rewrite E in Ho; contradiction|assumption]. }
        split; [apply C10.Proofs.aremove_NoDup; assumption|].
        split; [assumption|]. split; [assumption|]. split; [change (length (k :: l)) with (S (length l)) in H4; lia|].
        intro x. rewrite keys_aremove. specialize (H3 x). simpl in H3.
        destruct (Nat.eq_dec x old) as [->|Hxo]; [tauto|].
        destruct (Nat.eq_dec x k) as [->|Hxk].
        * intuition.
        * rewrite <- (Hsame x Hxk). intuition congruence.
      + split; [assumption|]. split; [assumption|]. split; [constructor; assumption|]. split; [simpl; lia|].
        intro x. simpl. destruct (Nat.eq_dec x k) as [->|Hne]; [tauto|]. rewrite <- (Hsame x Hne). intuition congruence.
  Qed.

  Lemma CInv_pre k c : CInv c -> In k (keys (c_data c)) -> PreInv k c.
  Proof.
    intros (Hnd & H) Hk. split; [assumption|]. split; [assumption|].
    destruct (c_lru c) as [[limit l]|]; [|exact I]. destruct H as (H1 & H2 & H3 & H4). repeat split; try assumption; apply H4.
  Qed.

  Lemma cdel_inv k c : CInv c -> CInv (cdel tstep k c).
  Proof.
    intros (Hnd & H). unfold cdel, lru_remove, CInv. simpl.
    destruct (c_lru c) as [[limit l]|] eqn:El; simpl.
    - destruct H as (Hlim & Hndl & Hlen & Hsame). destruct (mem k l) eqn:Hm; simpl.
      + split; [repeat apply C10.Proofs.aremove_NoDup; assumption|]. split; [assumption|].
        split; [apply NoDup_del; assumption|]. split.
        * apply mem_In in Hm. rewrite <- (length_del k l Hndl Hm) in Hlen. lia.
        * intro x. rewrite in_del, !keys_aremove, Hsame. tauto.
      + split; [apply C10.Proofs.aremove_NoDup; assumption|]. split; [assumption|]. split; [assumption|].
        split; [assumption|]. intro x. rewrite keys_aremove, <- Hsame. 
        assert (~ In k l) by (rewrite <- mem_In; congruence). intuition congruence.
    - split; [apply C10.Proofs.aremove_NoDup; assumption|exact I].
  Qed.

  Lemma expire_all_inv f : forall c, CInv c -> CInv (expire_all tstep f c).
  Proof. induction f as [|kv f IH]; intros c H; simpl; [assumption|]. apply IH. apply cdel_inv. assumption. Qed.

  Lemma CInv_ts c ts' : CInv c -> CInv (mkC (c_data c) (c_lru c) (c_expire c) ts').
  Proof. intro H. exact H. Qed.

  Lemma cset_inv k v j c : CInv c -> CInv (cset tstep k v j c).
  Proof.
    intros (Hnd & H). unfold cset. apply expire_all_inv.
    set (c0 := mkC (aset Nat.eqb k v (c_data c)) (c_lru c) (c_expire c) (c_ts c)).
    assert (HP : PreInv k c0).
    { unfold PreInv, c0; cbn [c_data c_lru]. split; [apply C10.Proofs.aset_NoDup; assumption|]. split; [apply (keys_aset k v); auto|].
      destruct (c_lru c) as [[limit l]|]; [|exact I]. destruct H as (H1 & H2 & H3 & H4). repeat split; try assumption.
      - intro Hx. apply (keys_aset k v). right. apply H4. assumption.
      - intro Hx. apply (keys_aset k v) in Hx as [->|Hx]; [congruence|]. apply H4. assumption. }
    apply (lru_add_inv k c0) in HP. exact HP.
  Qed.

  Lemma cget_inv k c : CInv c -> CInv (fst (cget tstep k c)).
  Proof.
    intro H. unfold cget. destruct (alookup Nat.eqb k (c_data c)) as [v|] eqn:E; simpl; [|assumption].
    apply lru_add_inv. apply CInv_pre; [assumption|]. apply C10.Proofs.al_In in E.
    apply in_map_iff. exists (k, v). auto.
  Qed.

  Lemma cstep_inv c o : CInv c -> CInv (fst (fst (cstep tstep c o))).
  Proof.
    intro H. destruct o; simpl.
    - apply cset_inv; assumption.
    - apply cset_inv; assumption.
    - pose proof (cget_inv k c H). destruct (cget tstep k c). assumption.
    - apply cdel_inv; assumption.
    - unfold ctake. pose proof (cget_inv k c H) as H1. destruct (cget tstep k c) as [c1 [v|]]; simpl in *; [assumption|].
      pose proof (cget_inv k c1 H1) as H2. destruct (cget tstep k c1) as [c2 [v|]]; simpl in *; [assumption|].
      destruct fetch; simpl; [apply cset_inv|]; assumption.
    - unfold ctick. apply expire_all_inv. exact H.
  Qed.

  Fixpoint crun (c : cache TS) (ops : list cop) : cache TS :=
    match ops with [] => c | o :: r => crun (fst (fst (cstep tstep c o))) r end.

  Lemma crun_inv ops : forall c, CInv c -> CInv (crun c ops).
  Proof. induction ops as [|o r IH]; intros c H; simpl; [assumption|]. apply IH. apply cstep_inv. assumption. Qed.

  (* size bound *)
  Lemma CInv_size c limit l : CInv c -> c_lru c = Some (limit, l) -> length (c_data c) <= limit.
  Proof.
    intros (Hnd & H) El. rewrite El in H. destruct H as (_ & Hndl & Hlen & Hsame).
    assert (Permutation l (keys (c_data c))) by (apply NoDup_Permutation; assumption).
    apply Permutation_length in H. unfold keys in H. rewrite map_length in H. lia.
  Qed.

End Any.

(* ---------- one-step facts about LRU order, Take, and the timer hand-off ---------- *)
Section Steps.
  Context {TS : Type}.
  Variable tstep : TS -> op -> TS * fired.

  (* a stored key that is set, read or taken moves to the front; the others keep their order *)
  Lemma lru_touch k c limit l : c_lru c = Some (limit, l) -> mem k l = true ->
    c_lru (lru_add tstep k c) = Some (limit, k :: del k l) /\ c_data (lru_add tstep k c) = c_data c.
  Proof. intros El Hm. unfold lru_add. rewrite El, Hm. split; reflexivity. Qed.

  (* a new key on a full list: the victim is the LAST (least recently used) key, and only it *)
  Lemma lru_evicts_last k c limit l : c_lru c = Some (limit, l) -> mem k l = false -> limit < S (length l) ->
    c_lru (lru_add tstep k c) = Some (limit, removelast (k :: l)) /\
    c_data (lru_add tstep k c) = aremove Nat.eqb (last (k :: l) k) (c_data c).
  Proof.
    intros El Hm Hfull. unfold lru_add. rewrite El, Hm. change (length (k :: l)) with (S (length l)).
    destruct (Nat.ltb_spec limit (S (length l))); [|lia]. split; reflexivity.
  Qed.

  Lemma lru_room k c limit l : c_lru c = Some (limit, l) -> mem k l = false -> S (length l) <= limit ->
    c_lru (lru_add tstep k c) = Some (limit, k :: l) /\ c_data (lru_add tstep k c) = c_data c.
  Proof.
    intros El Hm Hroom. unfold lru_add. rewrite El, Hm. change (length (k :: l)) with (S (length l)).
    destruct (Nat.ltb_spec limit (S (length l))); [lia|]. split; reflexivity.
  Qed.

  (* Take *)
  Lemma take_cached k f j c v : alookup Nat.eqb k (c_data c) = Some v ->
    ctake tstep k f j c = (lru_add tstep k c, Some v, false).
  Proof. intro H. unfold ctake, cget. rewrite H. reflexivity. Qed.

  Lemma take_error_not_cached k j c : alookup Nat.eqb k (c_data c) = None ->
    ctake tstep k None j c = (c, None, true).
  Proof. intro H. unfold ctake, cget. rewrite H. rewrite H. reflexivity. Qed.

  Lemma take_fetches_once_and_caches k v j c : alookup Nat.eqb k (c_data c) = None ->
    ctake tstep k (Some v) j c = (cset tstep k v j c, Some v, true).
  Proof. intro H. unfold ctake, cget. rewrite H. rewrite H. reflexivity. Qed.

  (* what SetWithExpire asks of the wheel: SetTimer(k, v, j) for a new key, MoveTimer(k, j) for a stored one *)
  Definition set_request (k v : nat) (j : Z) (c : cache TS) : op :=
    match alookup Nat.eqb k (c_data c) with Some _ => OMove k j | None => OSet k v j end.

  Lemma cset_hands_jitter_to_wheel k v j c :
    let c1 := lru_add tstep k (mkC (aset Nat.eqb k v (c_data c)) (c_lru c) (c_expire c) (c_ts c)) in
    let tf := timer_call tstep (c_ts c1) (set_request k v j c) in
    cset tstep k v j c = expire_all tstep (snd tf) (mkC (c_data c1) (c_lru c1) (c_expire c1) (fst tf)).
  Proof. unfold cset, set_request. destruct (alookup Nat.eqb k (c_data c)); reflexivity. Qed.
End Steps.

(* expiry window arithmetic: a jittered delay within [95%, 105%] of e, at least one interval, is due
   (C10: T + floor(j / 1s)) no earlier than floor(0.95 e / 1s) and no later than floor(1.05 e / 1s) ticks *)
Lemma window_arith (e j : Z) :
  (e * 95 / 100 <= j <= e * 105 / 100)%Z -> (Z.pos second <= j)%Z ->
  Z.to_nat (e * 95 / 100 / Z.pos second) <= steps_of second j <= Z.to_nat (e * 105 / 100 / Z.pos second) /\
  1 <= steps_of second j.
Proof.
  intros [Hlo Hhi] Hj. unfold steps_of. split; [split|].
  - apply Z2Nat.inj_le; [apply Z.div_pos; lia | apply Z.div_pos; lia | apply Z.div_le_mono; lia].
  - apply Z2Nat.inj_le; [apply Z.div_pos; lia | apply Z.div_pos; lia | apply Z.div_le_mono; lia].
  - apply (C10.Proofs.steps_ge_1 second j Hj).
Qed.

(* the limit chosen at construction never changes *)
Section Limit.
  Context {TS : Type}.
  Variable tstep : TS -> op -> TS * fired.
  Variable L : nat.
  Definition has_limit (c : cache TS) : Prop := exists l, c_lru c = Some (L, l).

  Lemma hl_add k c : has_limit c -> has_limit (lru_add tstep k c).
  Proof. intros [l E]. unfold has_limit, lru_add. rewrite E. destruct (mem k l); [cbn [c_lru]; eauto|]. destruct (L <? length (k :: l)); cbn [c_lru]; eauto. Qed.
  Lemma hl_del k c : has_limit c -> has_limit (cdel tstep k c).
  Proof. intros [l E]. unfold has_limit, cdel, lru_remove. cbn [c_lru c_data c_expire c_ts]. rewrite E. destruct (mem k l); cbn [c_lru]; eauto. Qed.
  Lemma hl_exp f : forall c, has_limit c -> has_limit (expire_all tstep f c).
  Proof. induction f as [|kv f IH]; intros c H; simpl; [assumption|]. apply IH. apply hl_del. assumption. Qed.
  Lemma hl_set k v j c : has_limit c -> has_limit (cset tstep k v j c).
  Proof.
    intro H. unfold cset. apply hl_exp.
    pose proof (hl_add k (mkC (aset Nat.eqb k v (c_data c)) (c_lru c) (c_expire c) (c_ts c)) H) as [l E].
    exists l. exact E.
  Qed.
  Lemma hl_get k c : has_limit c -> has_limit (fst (cget tstep k c)).
  Proof. intro H. unfold cget. destruct (alookup Nat.eqb k (c_data c)); simpl; [apply hl_add|]; assumption. Qed.
  Lemma hl_step c o : has_limit c -> has_limit (fst (fst (cstep tstep c o))).
  Proof.
    intro H. destruct o; simpl.
    - apply hl_set; assumption.
    - apply hl_set; assumption.
    - pose proof (hl_get k c H). destruct (cget tstep k c). assumption.
    - apply hl_del; assumption.
    - unfold ctake. pose proof (hl_get k c H) as G1. destruct (cget tstep k c) as [c1 [v|]]; simpl in *; [assumption|].
      pose proof (hl_get k c1 G1) as G2. destruct (cget tstep k c1) as [c2 [v|]]; simpl in *; [assumption|].
      destruct fetch; simpl; [apply hl_set|]; assumption.
    - unfold ctick. apply hl_exp. exact H.
  Qed.
  Lemma hl_run ops : forall c, has_limit c -> has_limit (crun tstep c ops).
  Proof. induction ops as [|o r IH]; intros c H; simpl; [assumption|]. apply IH. apply hl_step. assumption. Qed.
End Limit.

Lemma size_bound {TS} (tstep : TS -> op -> TS * fired) expire limit ts ops : (0 < limit)%Z ->
  length (c_data (crun tstep (cnew expire limit ts) ops)) <= Z.to_nat limit.
Proof.
  intro Hl. pose proof (crun_inv tstep ops _ (CInv_new tstep expire limit ts)) as HI.
  destruct (hl_run tstep (Z.to_nat limit) ops (cnew expire limit ts)) as [l El].
  { unfold has_limit, cnew; cbn [c_lru]. destruct (Z.ltb_spec 0 limit); [eauto|lia]. }
  apply (CInv_size _ _ _ HI El).
Qed.
