(* C17 Props: the property theorems, nothing else.  `cstep tstep` is the transcribed cache over an arbitrary
   timing-wheel handler `tstep` (Model.v); theorems quantified over tstep hold whatever the wheel does, in
   particular for the C10 wheel model (`wstep = cstep C10.Model.step_ok`).  Calls are sequential and expiry
   callbacks complete before the next call (see harness assumptions); concurrent Take callers are C18's. *)
From God Require Import Base.Prelude C17.Model C17.Proofs.
From God Require C10.Model C10.Proofs.
From God Require C17.Exec C17.Link.
Import C10.Model.

(* A cache created with a limit never holds more than that many entries: after every history of
   Set/SetWithExpire/Get/Del/Take/ticks, for every expiry, jitter and wheel behaviour. *)
Theorem c17_size_bound : forall TS (tstep : TS -> op -> TS * fired) expire limit ts ops,
  (0 < limit)%Z ->
  length (c_data (crun tstep (cnew expire limit ts) ops)) <= Z.to_nat limit.
Proof. intros. apply size_bound. assumption. Qed.
Print Assumptions c17_size_bound.

(* data and the LRU list always hold the same keys, each once (the invariant behind the bound) *)
Theorem c17_lru_consistent : forall TS (tstep : TS -> op -> TS * fired) expire limit ts ops,
  CInv (crun tstep (cnew expire limit ts) ops).
Proof. intros. apply crun_inv. apply (CInv_new tstep). Qed.
Print Assumptions c17_lru_consistent.

(* When a new key arrives at a full cache the entry dropped is the last of the recency list, i.e. the one
   least recently set, read or taken: every Set/Get-hit/Take-hit moves its key to the front and leaves the
   order of the others unchanged. *)
Theorem c17_evicts_lru : forall TS (tstep : TS -> op -> TS * fired) k c limit l,
  c_lru c = Some (limit, l) ->
  (mem k l = true ->
     c_lru (lru_add tstep k c) = Some (limit, k :: del k l) /\ c_data (lru_add tstep k c) = c_data c) /\
  (mem k l = false -> limit < S (length l) ->
     c_lru (lru_add tstep k c) = Some (limit, removelast (k :: l)) /\
     c_data (lru_add tstep k c) = aremove Nat.eqb (last (k :: l) k) (c_data c)) /\
  (mem k l = false -> S (length l) <= limit ->
     c_lru (lru_add tstep k c) = Some (limit, k :: l) /\ c_data (lru_add tstep k c) = c_data c).
Proof.
  intros. split; [|split]; intros; [apply lru_touch | apply lru_evicts_last | apply lru_room]; assumption.
Qed.
Print Assumptions c17_evicts_lru.

(* Take returns the cached value without fetching; otherwise it runs fetch once and caches only on success *)
Theorem c17_take_cached : forall TS (tstep : TS -> op -> TS * fired) k f j c v,
  alookup Nat.eqb k (c_data c) = Some v -> ctake tstep k f j c = (lru_add tstep k c, Some v, false).
Proof. exact @take_cached. Qed.
Print Assumptions c17_take_cached.

Theorem c17_take_error_not_cached : forall TS (tstep : TS -> op -> TS * fired) k j c,
  alookup Nat.eqb k (c_data c) = None -> ctake tstep k None j c = (c, None, true).
Proof. exact @take_error_not_cached. Qed.
Print Assumptions c17_take_error_not_cached.

Theorem c17_take_success_cached : forall TS (tstep : TS -> op -> TS * fired) k v j c,
  alookup Nat.eqb k (c_data c) = None -> ctake tstep k (Some v) j c = (cset tstep k v j c, Some v, true).
Proof. exact @take_fetches_once_and_caches. Qed.
Print Assumptions c17_take_success_cached.

(* Take runs the fetch function exactly when the key is not stored -- once, never for a stored key: the cache
   user (rpc/internal/auth validate) pays one store lookup per uncached app, shared by overlapping callers
   through the single-flight barrier (C18), none for a cached one. *)
Theorem c17_take_fetches_iff_absent : forall TS (tstep : TS -> op -> TS * fired) k f j c,
  snd (ctake tstep k f j c) = match alookup Nat.eqb k (c_data c) with None => true | Some _ => false end.
Proof.
  intros. destruct (alookup Nat.eqb k (c_data c)) as [v|] eqn:E.
  - rewrite (take_cached tstep k f j c v E). reflexivity.
  - destruct f as [v|]; [rewrite (take_fetches_once_and_caches tstep k v j c E) | rewrite (take_error_not_cached tstep k j c E)]; reflexivity.
Qed.
Print Assumptions c17_take_fetches_iff_absent.

(* ---- expiry: history-level statements on the cache running on the C10 wheel model ----
   `wnew_at I e lim` is the cache on a 300-slot wheel with interval I (NewCache: I = one second); `valid_cop I`
   restricts the jittered delay j of every Set/SetWithExpire/Take to at least one interval (the scope of the
   property); `grun` runs the cache and keeps two ghosts: T, the number of ticks seen, and G, for every key the
   pair (T at its last Set / SetWithExpire / caching Take, the jittered delay j of that call). *)

(* Every stored entry has a pending timer in the wheel's index, after every history: no SetTimer/MoveTimer
   is lost or rejected, so no entry can stay forever. *)
Theorem c17_stored_has_timer : forall I e lim ops k, Forall (valid_cop I) ops ->
  In k (keys (c_data (crun step_ok (wnew_at I e lim) ops))) ->
  timer k (timers (c_ts (crun step_ok (wnew_at I e lim) ops))) <> None.
Proof. exact stored_has_timer. Qed.
Print Assumptions c17_stored_has_timer.

(* After every history, an entry that is stored was last set at some tick T0 with jittered delay j, its due
   tick T0 + floor(j/I) is still ahead, and the next tick keeps it unless that tick IS the due tick: an entry
   is dropped for age at exactly T0 + floor(j/I) -- not earlier, not later, whatever was done to other keys,
   at whatever wheel phase, for any number of revolutions.  (Composition of the cache with
   c10_refines_timer_spec's invariant; a re-Set moves T0 and j, i.e. re-schedules from that call.) *)
Theorem c17_expiry_window : forall I e lim ops, Forall (valid_cop I) ops ->
  let r := grun 0 [] (wnew_at I e lim) ops in
  let T := fst (fst r) in let G := snd (fst r) in let c := snd r in
  forall k, In k (keys (c_data c)) ->
    exists T0 j, alookup Nat.eqb k G = Some (T0, j) /\ T < T0 + steps_of I j /\
                 (In k (keys (c_data (ctick step_ok c))) <-> T0 + steps_of I j <> S T).
Proof. exact expiry_history. Qed.
Print Assumptions c17_expiry_window.

(* ... and with j within [95%, 105%] of the expiry (c17_jitter_window) that tick lies floor(0.95 e/I) to
   floor(1.05 e/I) ticks after the Set.  Also: SetWithExpire hands exactly j to the wheel (SetTimer for a new
   key, MoveTimer for a stored one). *)
Theorem c17_window_ticks : forall (I : positive) (e j : Z),
  (e * 95 / 100 <= j <= e * 105 / 100)%Z -> (Z.pos I <= j)%Z ->
  Z.to_nat (e * 95 / 100 / Z.pos I) <= steps_of I j <= Z.to_nat (e * 105 / 100 / Z.pos I) /\ 1 <= steps_of I j.
Proof. exact window_arith. Qed.
Print Assumptions c17_window_ticks.

Theorem c17_set_hands_jitter_to_wheel : forall TS (tstep : TS -> op -> TS * fired) k v j c,
  let c1 := lru_add tstep k (mkC (aset Nat.eqb k v (c_data c)) (c_lru c) (c_expire c) (c_ts c)) in
  let tf := timer_call tstep (c_ts c1) (set_request k v j c) in
  cset tstep k v j c = expire_all tstep (snd tf) (mkC (c_data c1) (c_lru c1) (c_expire c1) (fst tf)).
Proof. exact @cset_hands_jitter_to_wheel. Qed.
Print Assumptions c17_set_hands_jitter_to_wheel.

(* The jitter, in exact arithmetic on the random draw d (Float64() = d / 2^63) and for EVERY base duration
   >= 0 (seconds to years, no bound): (1 + 1/20 - 2 * 1/20 * d / 2^63) * base lies within [95%, 105%] of the
   base.  That the float64 expression of lib/mathx/unstable.go agrees with this value to within 1 microsecond
   over the whole duration range is what the `jitter` correspondence stream checks. *)
Theorem c17_jitter_window : forall base d : Z, (0 <= base)%Z -> (0 <= d < C17.Exec.two63)%Z ->
  (base * 95 / 100 <= C17.Exec.jit_exact base d <= base * 105 / 100)%Z.
Proof. exact C17.Link.jit_exact_window. Qed.
Print Assumptions c17_jitter_window.

(* ---- non-vacuity: limit 2; k0,k1 set, k0 read, k2 set evicts k1 (the least recently used) ---- *)
Example c17_lru_example :
  let c := crun step_ok (wnew 3000000000 2) [KSet 0 1 3000000000; KSet 1 2 3000000000; KGet 0; KSet 2 3 3000000000] in
  map fst (c_data c) = [2; 0] /\ c_lru c = Some (2, [2; 0]).
Proof. vm_compute. split; reflexivity. Qed.

(* an entry set with a 3 s jitter at phase 0 is gone after the third tick and not before *)
Example c17_expiry_example :
  let c0 := crun step_ok (wnew 3000000000 0) [KSet 0 1 3150000000; KTick; KTick] in
  let c1 := crun step_ok c0 [KTick] in
  map fst (c_data c0) = [0] /\ c_data c1 = [].
Proof. vm_compute. split; reflexivity. Qed.

(* the hypotheses of the expiry theorems are satisfiable, and the ghost tracks the last Set: one-hour
   interval, 30-day expiry, a re-Set after 5 ticks *)
Example c17_expiry_hypotheses_satisfiable :
  let I := 3600000000000%positive in
  let ops := [KSet 0 1 2592000000000000; KTick; KTick; KTick; KTick; KTick; KSet 0 2 2700000000000000; KGet 0] in
  Forall (valid_cop I) ops /\
  fst (grun 0 [] (wnew_at I 2592000000000000 0) ops) = (5, [(0, (5, 2700000000000000%Z))]).
Proof. split; [repeat constructor; simpl; lia|]. vm_compute. reflexivity. Qed.
