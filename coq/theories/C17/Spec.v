(* C17 Spec: the abstract object of the property -- a bounded map in recency order whose entries remember
   the tick and the expiry of their last Set.  An entry may be dropped for age only lo_ticks..hi_ticks ticks
   after that Set (floor(0.95 e / 1s) .. floor(1.05 e / 1s)); the tick itself is the C10 abstract timer's
   due tick T + floor(j / 1s) for the jittered j in [0.95 e, 1.05 e]. *)
From God Require Import Base.Prelude.

(* entry = (key, value, tick of its last Set, expiry of its last Set); most recently used first *)
Definition rentry := (nat * nat * nat * Z)%type.
Definition rkey (e : rentry) : nat := fst (fst (fst e)).
Definition rval (e : rentry) : nat := snd (fst (fst e)).
Definition rset (e : rentry) : nat := snd (fst e).
Definition rexp (e : rentry) : Z := snd e.

Definition ns : Z := 1000000000.
Definition tol : Z := 1000.     (* float64 rounding of (1 +- 0.05) * expire, in nanoseconds *)
(* ticks after the Set at which the entry may be dropped for age: floor(0.95 e / 1s) .. floor(1.05 e / 1s) *)
Definition lo_ticks (I e : Z) : nat := Z.to_nat ((e * 95 / 100 - tol) / I).
Definition hi_ticks (I e : Z) : nat := Z.to_nat ((e * 105 / 100 + tol) / I).
(* the jittered delay is at least one wheel interval (else the entry's age is below the tick granularity) *)
Definition in_scope (I e : Z) : bool := (I <=? e * 95 / 100 - tol)%Z.

Definition rfind (k : nat) (r : list rentry) : option rentry := find (fun e => rkey e =? k) r.
Definition rdel (k : nat) (r : list rentry) : list rentry := filter (fun e => negb (rkey e =? k)) r.
Definition rput (limit : Z) (e : rentry) (r : list rentry) : list rentry :=
  let r' := e :: rdel (rkey e) r in
  if (0 <? limit)%Z && (Z.to_nat limit <? length r') then removelast r' else r'.
Definition rtouch (k : nat) (r : list rentry) : list rentry :=
  match rfind k r with Some e => e :: rdel k r | None => r end.

