(* C17 Exec: checkers evaluated by vm_compute on (call history, observed behaviour of collection.Cache). *)
From God Require Export Base.Prelude C17.Model.
From God Require C10.Model.
From God Require Export C17.Spec.

Record obs := mkObs {
  ob_val : option nat;        (* Get/Take: value returned *)
  ob_err : bool;              (* Take: error returned *)
  ob_fetched : bool;          (* Take: the fetch function ran *)
  ob_keys : list nat;         (* keys of the data map after the call *)
  ob_timers : list nat;       (* keys with a pending timer in the wheel's index after the call *)
  ob_nkeys : nat;             (* size of the data map *)
  ob_ntimers : nat            (* size of the wheel's timer index *)
}.

(* a call, or a bulk of calls observed only at its end (the driver issues them back to back):
   XFill from n v j  = Set(k_from, v) ... Set(k_{from+n-1}, v), every one jittered to j;
   XChurn from n v j = n times Set(k, v); Del(k) with k cycling over k_from .. k_{from+15} (timer index churn:
                       n timer removals) *)
Inductive xop := XO (o : cop) | XFill (from n v : nat) (j : Z) | XChurn (from n v : nat) (j : Z).

Definition bulk_ops (x : xop) : list cop :=
  match x with
  | XO o => [o]
  | XFill from n v j => map (fun i => KSet (from + i) v j) (seq 0 n)
  | XChurn from n v j => flat_map (fun i => [KSet (from + i mod 16) v j; KDel (from + i mod 16)]) (seq 0 n)
  end.

Record ccase := mkcase {
  c_exp : Z;                  (* NewCache(expire), nanoseconds *)
  c_limit : Z;                (* WithLimit *)
  c_phase : nat;              (* wheel ticks before the first call *)
  c_ivl : Z;                  (* interval of the wheel the cache runs on, nanoseconds (NewCache: one second) *)
  c_hung : bool;              (* the driver gave up waiting: the cache or its wheel got stuck *)
  c_hide : nat;               (* > 0: ob_keys / ob_timers list only the keys below it (big fills); the sizes count all *)
  c_ops : list xop;
  c_obs : list obs
}.

Fixpoint remove1 (x : nat) (l : list nat) : option (list nat) :=
  match l with
  | [] => None
  | y :: r => if x =? y then Some r else option_map (cons y) (remove1 x r)
  end.
Fixpoint perm_b (l1 l2 : list nat) : bool :=
  match l1 with
  | [] => match l2 with [] => true | _ => false end
  | x :: r => match remove1 x l2 with Some l2' => perm_b r l2' | None => false end
  end.

Definition shown (hide : nat) (l : list nat) : list nat := if hide =? 0 then l else filter (fun k => k <? hide) l.

Definition is_take (o : cop) : bool := match o with KTake _ _ _ => true | _ => false end.

(* ---- model agreement ---- *)
(* a big churn (more than 64 pairs) of keys that are not stored is not replayed on the wheel model: Set k; Del k
   of an absent key with no limit leaves the data map, the LRU and the timer index as they were (the heap gets a
   tombstone that is dropped unseen when its slot is scanned); small churns ARE replayed, which checks exactly that *)
Definition churn_shortcut (limit : Z) (c : wheel_cache) (x : xop) : bool :=
  match x with
  | XChurn from n _ _ => (64 <? n) && (limit <=? 0)%Z &&
                         forallb (fun i => match alookup Nat.eqb (from + i) (c_data c) with None => true | Some _ => false end) (seq 0 16)
  | _ => false
  end.

Fixpoint model_run (hide : nat) (limit : Z) (c : wheel_cache) (ops : list xop) (os : list obs) : bool :=
  match ops, os with
  | [], [] => true
  | XO o :: ops', ob :: os' =>
      match wstep c o with
      | (c', r, fetched) =>
          option_eqb Nat.eqb r (ob_val ob) &&
          Bool.eqb (ob_err ob) (is_take o && match r with None => true | Some _ => false end) &&
          Bool.eqb (ob_fetched ob) fetched &&
          perm_b (shown hide (map fst (c_data c'))) (ob_keys ob) && (length (c_data c') =? ob_nkeys ob) &&
          perm_b (shown hide (map fst (C10.Model.timers (c_ts c')))) (ob_timers ob) &&
          (length (C10.Model.timers (c_ts c')) =? ob_ntimers ob) && model_run hide limit c' ops' os'
      end
  | x :: ops', ob :: os' =>      (* bulk: only the state at its end is observed *)
      let c' := if churn_shortcut limit c x then c else fold_left (fun c o => fst (fst (wstep c o))) (bulk_ops x) c in
      option_eqb Nat.eqb None (ob_val ob) && negb (ob_err ob) && negb (ob_fetched ob) &&
      perm_b (shown hide (map fst (c_data c'))) (ob_keys ob) && (length (c_data c') =? ob_nkeys ob) &&
      perm_b (shown hide (map fst (C10.Model.timers (c_ts c')))) (ob_timers ob) &&
      (length (C10.Model.timers (c_ts c')) =? ob_ntimers ob) && model_run hide limit c' ops' os'
  | _, _ => false
  end.

Fixpoint iter {A} (n : nat) (f : A -> A) (a : A) : A := match n with O => a | S n' => iter n' f (f a) end.

Definition cache_model_ok (c : ccase) : bool :=
  negb (c_hung c) && (0 <? c_ivl c)%Z &&
  model_run (c_hide c) (c_limit c) (iter (c_phase c) (ctick C10.Model.step_ok) (wnew_at (Z.to_pos (c_ivl c)) (c_exp c) (c_limit c))) (c_ops c) (c_obs c).

(* ---- the property on the observations: replayed on the reference cache of Spec.v ---- *)
(* the stored keys are the reference's, within the limit, and every stored entry has a pending timer
   (an entry whose SetTimer/MoveTimer was rejected or lost would never expire) *)
Definition keys_ok (hide : nat) (limit : Z) (r : list rentry) (ob : obs) : bool :=
  perm_b (shown hide (map rkey r)) (ob_keys ob) && (length r =? ob_nkeys ob) &&
  forallb (fun k => existsb (Nat.eqb k) (ob_timers ob)) (ob_keys ob) && (ob_nkeys ob <=? ob_ntimers ob) && ((limit <=? 0)%Z || (ob_nkeys ob <=? Z.to_nat limit)).

(* the reference after a bulk of Sets / Set-Del pairs (default expiry) *)
Definition ref_bulk (limit dflt : Z) (T : nat) (r : list rentry) (x : xop) : list rentry :=
  fold_left (fun r o => match o with
                        | KSet k v _ => rput limit (k, v, T, dflt) r
                        | KDel k => rdel k r
                        | _ => r
                        end) (bulk_ops x) r.

Fixpoint spec_run (hide : nat) (I limit dflt : Z) (T : nat) (r : list rentry) (ops : list xop) (os : list obs) : bool :=
  match ops, os with
  | [], [] => true
  | XFill a b c d :: ops', ob :: os' =>
      if negb (in_scope I dflt) then true else
      let r' := ref_bulk limit dflt T r (XFill a b c d) in keys_ok hide limit r' ob && spec_run hide I limit dflt T r' ops' os'
  | XChurn a b c d :: ops', ob :: os' =>
      if negb (in_scope I dflt) then true else
      (* Set k; Del k of keys the reference does not hold, no limit: rput conses the entry, rdel filters it out again *)
      let fresh := (limit <=? 0)%Z && forallb (fun i => match rfind (a + i) r with None => true | Some _ => false end) (seq 0 16) in
      let r' := if fresh then r else ref_bulk limit dflt T r (XChurn a b c d) in keys_ok hide limit r' ob && spec_run hide I limit dflt T r' ops' os'
  | XO o :: ops', ob :: os' =>
      match o with
      | KSet k v _ =>
          if negb (in_scope I dflt) then true else
          let r' := rput limit (k, v, T, dflt) r in keys_ok hide limit r' ob && spec_run hide I limit dflt T r' ops' os'
      | KSetX k v e _ =>
          if negb (in_scope I e) then true else
          let r' := rput limit (k, v, T, e) r in keys_ok hide limit r' ob && spec_run hide I limit dflt T r' ops' os'
      | KGet k =>
          let r' := rtouch k r in
          option_eqb Nat.eqb (option_map rval (rfind k r)) (ob_val ob) && keys_ok hide limit r' ob &&
          spec_run hide I limit dflt T r' ops' os'
      | KDel k => let r' := rdel k r in keys_ok hide limit r' ob && spec_run hide I limit dflt T r' ops' os'
      | KTake k f _ =>
          match rfind k r with
          | Some e =>      (* cached: returned without fetching *)
              let r' := rtouch k r in
              option_eqb Nat.eqb (Some (rval e)) (ob_val ob) && negb (ob_err ob) && negb (ob_fetched ob) &&
              keys_ok hide limit r' ob && spec_run hide I limit dflt T r' ops' os'
          | None =>
              match f with
              | Some v =>  (* fetched once, returned and cached *)
                  if negb (in_scope I dflt) then true else
                  let r' := rput limit (k, v, T, dflt) r in
                  option_eqb Nat.eqb (Some v) (ob_val ob) && negb (ob_err ob) && ob_fetched ob &&
                  keys_ok hide limit r' ob && spec_run hide I limit dflt T r' ops' os'
              | None =>    (* fetch failed: error, nothing cached *)
                  option_eqb Nat.eqb None (ob_val ob) && ob_err ob && ob_fetched ob &&
                  keys_ok hide limit r ob && spec_run hide I limit dflt T r ops' os'
              end
          end
      | KTick =>
          let T' := S T in
          (* an entry whose key is not listed (c_hide) counts as present: the size check of keys_ok notices its loss *)
          let present e := (negb (hide =? 0) && (hide <=? rkey e)) || existsb (Nat.eqb (rkey e)) (ob_keys ob) in
          (* nothing appears; what disappears is in its window; what stays is not overdue *)
          forallb (fun k => existsb (fun e => rkey e =? k) r) (ob_keys ob) &&
          forallb (fun e => if present e then T' - rset e <? hi_ticks I (rexp e)
                            else (lo_ticks I (rexp e) <=? T' - rset e) && (T' - rset e <=? hi_ticks I (rexp e))) r &&
          let r' := filter present r in keys_ok hide limit r' ob && spec_run hide I limit dflt T' r' ops' os'
      end
  | _, _ => false
  end.

Definition cache_spec_ok (c : ccase) : bool :=
  negb (c_hung c) && (0 <? c_ivl c)%Z && spec_run (c_hide c) (c_ivl c) (c_limit c) (c_exp c) (c_phase c) [] (c_ops c) (c_obs c).

(* ---- the jitter on its own: mathx.Unstable.AroundDuration / AroundInt with the cache's deviation ----
   one scripted draw d (an Int63) per result; Float64() = d / 2^63 *)
Record jcase := mkj { j_base : Z; j_draws : list Z; j_durs : list Z; j_ints : list Z }.

(* expiryDeviation = 1/20 (Link.link_dev ties these to the regenerated constant; kept literal here so that the
   checkers still build -- and still find the concrete failing case -- when the Go side no longer translates) *)
Definition dev_num : Z := 1.
Definition dev_den : Z := 20.
Definition two63 : Z := 9223372036854775808.

(* exact rational value (1 + dev - 2 dev d/2^63) * base, rounded down *)
Definition jit_exact (base d : Z) : Z :=
  (base * (dev_den + dev_num) * two63 - 2 * dev_num * base * d) / (dev_den * two63).

Definition near (a b : Z) : bool := (Z.abs (a - b) <=? tol)%Z.

Fixpoint all2z (f : Z -> Z -> bool) (l1 l2 : list Z) : bool :=
  match l1, l2 with
  | [], [] => true
  | a :: r1, b :: r2 => f a b && all2z f r1 r2
  | _, _ => false
  end.

(* model: the float64 expression agrees with exact arithmetic on the draw to within 1 microsecond *)
Definition jitter_model_ok (j : jcase) : bool :=
  all2z (fun d o => near o (jit_exact (j_base j) d)) (j_draws j) (j_durs j) &&
  all2z (fun d o => near o (jit_exact (j_base j) d)) (j_draws j) (j_ints j).

(* property: whatever the draw, the jittered duration lies within [95%, 105%] of the base *)
Definition in_window (base o : Z) : bool :=
  (base * 95 / 100 - tol <=? o)%Z && (o <=? base * 105 / 100 + tol)%Z.
Definition jitter_spec_ok (j : jcase) : bool :=
  (length (j_durs j) =? length (j_draws j)) && (length (j_ints j) =? length (j_draws j)) &&
  forallb (in_window (j_base j)) (j_durs j) && forallb (in_window (j_base j)) (j_ints j).

(* ---- the RPC authenticator's use of Take (rpc/internal/auth/auth.go validate) ---- *)
Inductive aop :=
| ASet (app tok : nat) | ADel (app : nat) | ADown | AUp | ACall (app tok : nat)
| AExpire (app : nat)                      (* the cached entry is dropped (what the expiry wheel's callback does) *)
| ABurst (app : nat) (toks : list nat).    (* overlapping Authenticate calls for one app, one per token *)
Record acase := mka { a_strict : bool; a_ops : list aop; a_codes : list nat; a_lookups : list nat;
                      a_clookups : list nat;   (* store lookups of every single ACall, in order *)
                      a_hung : bool }.

Definition no_timer (ts : unit) (o : C10.Model.op) : unit * C10.Model.fired := (tt, []).
Definition CODE_OK := 0. Definition CODE_INTERNAL := 13. Definition CODE_UNAUTH := 16.

Definition verdict (strict : bool) (expect : option nat) (t : nat) : nat :=
  match expect with
  | Some e => if t =? e then CODE_OK else CODE_UNAUTH
  | None => if strict then CODE_INTERNAL else CODE_OK
  end.

Fixpoint take_codes {A} (n : nat) (l : list A) : option (list A * list A) :=
  match n with
  | O => Some ([], l)
  | S n' => match l with [] => None | x :: r => option_map (fun p => (x :: fst p, snd p)) (take_codes n' r) end
  end.

(* model: validate = cache.Take(app, store.HGet) on the transcribed cache (expiry 5 min, never reached by the
   clock; AExpire is the expiry).  Overlapping callers of Take share ONE execution of the transcribed Take
   (single-flight: C18), i.e. at most one store lookup, whose outcome every caller judges its own token by. *)
Fixpoint auth_model (strict up : bool) (store : list (nat * nat)) (c : cache unit) (ops : list aop)
         (codes lookups clk : list nat) : bool :=
  match ops with
  | [] => match codes, lookups, clk with [], [], [] => true | _, _, _ => false end
  | ASet a t :: r => auth_model strict up (aset Nat.eqb a t store) c r codes lookups clk
  | ADel a :: r => auth_model strict up (aremove Nat.eqb a store) c r codes lookups clk
  | ADown :: r => auth_model strict false store c r codes lookups clk
  | AUp :: r => auth_model strict true store c r codes lookups clk
  | AExpire a :: r => auth_model strict up store (cdel no_timer a c) r codes lookups clk
  | ACall a t :: r =>
      match codes, clk with
      | code :: codes', n :: clk' =>
          let fetch := if up then alookup Nat.eqb a store else None in
          match ctake no_timer a fetch 300000000000 c with
          | (c', expect, fetched) =>
              (code =? verdict strict expect t) && (n =? (if fetched && up then 1 else 0)) &&   (* a lookup that cannot reach a store that is down is not counted *)
              auth_model strict up store c' r codes' lookups clk'
          end
      | _, _ => false
      end
  | ABurst a toks :: r =>
      match take_codes (length toks) codes, lookups with
      | Some (mine, codes'), n :: lookups' =>
          let fetch := if up then alookup Nat.eqb a store else None in
          match ctake no_timer a fetch 300000000000 c with
          | (c', expect, fetched) =>
              (n =? (if fetched then 1 else 0)) && list_eqb Nat.eqb mine (map (verdict strict expect) toks) &&
              auth_model strict up store c' r codes' lookups' clk
          end
      | _, _ => false
      end
  end.

Definition auth_model_ok (a : acase) : bool :=
  negb (a_hung a) && auth_model (a_strict a) true [] (cnew 300000000000 0 tt) (a_ops a) (a_codes a) (a_lookups a) (a_clookups a).

(* property: a token is cached only by a successful lookup; a failed lookup (store down or app unknown)
   lets the request pass in non-strict mode but leaves nothing behind, so that once the store answers
   again the real token is required; concurrent callers for an uncached app (cold start, or after the entry
   expired) share ONE store lookup and all of them are judged by its result; cached apps cost no lookup *)
Fixpoint auth_spec (strict up : bool) (store cached : list (nat * nat)) (ops : list aop) (codes lookups clk : list nat) : bool :=
  match ops with
  | [] => match codes, lookups, clk with [], [], [] => true | _, _, _ => false end
  | ASet a t :: r => auth_spec strict up (aset Nat.eqb a t store) cached r codes lookups clk
  | ADel a :: r => auth_spec strict up (aremove Nat.eqb a store) cached r codes lookups clk
  | ADown :: r => auth_spec strict false store cached r codes lookups clk
  | AUp :: r => auth_spec strict true store cached r codes lookups clk
  | AExpire a :: r => auth_spec strict up store (aremove Nat.eqb a cached) r codes lookups clk
  | ACall a t :: r =>
      match codes, clk with
      | code :: codes', n :: clk' =>
          match alookup Nat.eqb a cached with
          | Some expect =>       (* one secret per APP: whatever token is presented, no further lookup *)
              (code =? verdict strict (Some expect) t) && (n =? 0) && auth_spec strict up store cached r codes' lookups clk'
          | None =>
              let got := if up then alookup Nat.eqb a store else None in
              (code =? verdict strict got t) && (negb up || (n =? 1)) &&
              auth_spec strict up store (match got with Some e => aset Nat.eqb a e cached | None => cached end) r codes' lookups clk'
          end
      | _, _ => false
      end
  | ABurst a toks :: r =>
      match take_codes (length toks) codes, lookups with
      | Some (mine, codes'), n :: lookups' =>
          match alookup Nat.eqb a cached with
          | Some expect =>
              (n =? 0) && list_eqb Nat.eqb mine (map (verdict strict (Some expect)) toks) &&
              auth_spec strict up store cached r codes' lookups' clk
          | None =>
              if up then
                let got := alookup Nat.eqb a store in
                (n =? 1) && list_eqb Nat.eqb mine (map (verdict strict got) toks) &&
                auth_spec strict up store (match got with Some e => aset Nat.eqb a e cached | None => cached end) r codes' lookups' clk
              else true      (* lookups cannot be counted while the store is down: out of this clause *)
          end
      | _, _ => false
      end
  end.

Definition auth_spec_ok (a : acase) : bool := negb (a_hung a) && auth_spec (a_strict a) true [] [] (a_ops a) (a_codes a) (a_lookups a) (a_clookups a).

(* ---- overlapping Takes with gated fetch functions, on one or several cache instances (kind flight) ----
   keys are indices into the driver's alphabet (which contains "", a very long key, NUL, unicode) *)
Inductive fstep :=
| FTake (id c k v : nat) (fail gate : bool)     (* Take(k, fetch) on cache c started; gate: fetch waits for FRelease id *)
| FRelease (id : nat)
| FGet (c k : nat).

Record ftake := mkft { ft_id : nat; ft_fetched : bool; ft_res : option nat }.   (* res None: an error was returned *)
Record fcase := mkf { f_steps : list fstep; f_takes : list ftake; f_gets : list (option nat); f_hung : bool }.

Section Flight.
  Variable S : Type.                                         (* one cache *)
  Variable s0 : S.
  Variable look : S -> nat -> option nat.
  Variable take : S -> nat -> option nat -> S * option nat.  (* a Take that finds the key missing: fetch result -> value handed out *)

  (* an open flight: (owner id, cache, key, fetch outcome, ids parked behind it) *)
  Definition flight := (nat * nat * nat * option nat * list nat)%type.
  Record fstate := mkfs { fs_caches : list (nat * S); fs_open : list flight; fs_done : list ftake }.

  Definition cache_of (st : fstate) (c : nat) : S := match alookup Nat.eqb c (fs_caches st) with Some x => x | None => s0 end.

  Definition finish (st : fstate) (f : flight) : fstate :=
    match f with
    | (id, c, k, out, parked) =>
        let (s', r) := take (cache_of st c) k out in
        mkfs (aset Nat.eqb c s' (fs_caches st)) (fs_open st)
             (fs_done st ++ mkft id true r :: map (fun p => mkft p false r) parked)     (* all of them get its result *)
    end.

  Definition fl_step (st : fstate) (x : fstep) (gets : list (option nat)) : fstate * list (option nat) :=
    match x with
    | FGet c k => (st, gets ++ [look (cache_of st c) k])
    | FTake id c k v fail gate =>
        match look (cache_of st c) k with
        | Some x => (mkfs (fs_caches st) (fs_open st) (fs_done st ++ [mkft id false (Some x)]), gets)   (* cached: no fetch *)
        | None =>
            let out := if fail then None else Some v in
            (* sharing is per cache instance and per key -- any key *)
            if existsb (fun f => match f with (_, c', k', _, _) => (c' =? c) && (k' =? k) end) (fs_open st) then
              (mkfs (fs_caches st)
                    (map (fun f => match f with (o, c', k', out', p) =>
                                     if (c' =? c) && (k' =? k) then (o, c', k', out', p ++ [id]) else f end) (fs_open st))
                    (fs_done st), gets)
            else if gate then (mkfs (fs_caches st) (fs_open st ++ [(id, c, k, out, [])]) (fs_done st), gets)
            else (finish st (id, c, k, out, []), gets)
        end
    | FRelease id =>
        match find (fun f => match f with (o, _, _, _, _) => o =? id end) (fs_open st) with
        | Some f =>
            let st' := mkfs (fs_caches st) (filter (fun f => match f with (o, _, _, _, _) => negb (o =? id) end) (fs_open st)) (fs_done st) in
            (finish st' f, gets)
        | None => (st, gets)
        end
    end.

  Fixpoint fl_run (st : fstate) (xs : list fstep) (gets : list (option nat)) : fstate * list (option nat) :=
    match xs with
    | [] => (st, gets)
    | x :: r => let (st', g') := fl_step st x gets in fl_run st' r g'
    end.

  (* at the end of the case the driver opens every gate *)
  Definition fl_final (st : fstate) : fstate := fold_left (fun st f => finish (mkfs (fs_caches st) [] (fs_done st)) f) (fs_open st) st.

  Definition ft_eqb (a b : ftake) : bool :=
    (ft_id a =? ft_id b) && Bool.eqb (ft_fetched a) (ft_fetched b) && option_eqb Nat.eqb (ft_res a) (ft_res b).

  Definition flight_ok (c : fcase) : bool :=
    let (st, gets) := fl_run (mkfs [] [] []) (f_steps c) [] in
    let done := fs_done (fl_final st) in
    negb (f_hung c) && list_eqb (option_eqb Nat.eqb) gets (f_gets c) &&
    (length done =? length (f_takes c)) &&
    forallb (fun o => existsb (ft_eqb o) done) (f_takes c).
End Flight.

(* model: every cache is the transcribed cache, a missing key goes through the transcribed Take *)
Definition flight_model_ok : fcase -> bool :=
  flight_ok (cache unit) (cnew 3600000000000 0 tt)
            (fun c k => alookup Nat.eqb k (c_data c))
            (fun c k out => match ctake no_timer k out 3600000000000 c with (c', r, _) => (c', r) end).

(* property: the fetch of a missing key runs once among the overlapping callers of THAT cache and key, all of them
   get its result, and it is stored only on success *)
Definition flight_spec_ok : fcase -> bool :=
  flight_ok (list (nat * nat)) []
            (fun m k => alookup Nat.eqb k m)
            (fun m k out => match out with Some v => (aset Nat.eqb k v m, Some v) | None => (m, None) end).

Inductive case := CC (c : ccase) | CJ (j : jcase) | CA (a : acase) | CF (f : fcase).
Definition model_ok (c : case) : bool :=
  match c with CC c => cache_model_ok c | CJ j => jitter_model_ok j | CA a => auth_model_ok a | CF f => flight_model_ok f end.
Definition spec_ok (c : case) : bool :=
  match c with CC c => cache_spec_ok c | CJ j => jitter_spec_ok j | CA a => auth_spec_ok a | CF f => flight_spec_ok f end.
