(* C17 Exec: checkers evaluated by vm_compute on (call history, observed behaviour of collection.Cache). *)
From God Require Export Base.Prelude C17.Model.
From God Require C10.Model.
From God Require Export C17.Spec.

Record obs := mkObs {
  ob_val : option nat;        (* Get/Take: value returned *)
  ob_err : bool;              (* Take: error returned *)
  ob_fetched : bool;          (* Take: the fetch function ran *)
  ob_keys : list nat          (* keys of the data map after the call *)
}.

Record case := mkcase {
  c_exp : Z;                  (* NewCache(expire), nanoseconds *)
  c_limit : Z;                (* WithLimit *)
  c_phase : nat;              (* wheel ticks before the first call *)
  c_ops : list cop;
  c_obs : list obs
}.

Fixpoint remove1 (x : nat) (l : list nat) : option (list nat) :=
  match l with
  | [] => None
  | y :: r => if x =? y then Some r else option_map (cons y) (remove1 x r)
  end.
Fixpoint perm_b (l1 l2 : list nat) : bool :=
  match l1 with
  | [] => match l2 with [] => true | _ => false end
  | x :: r => match remove1 x l2 with Some l2' => perm_b r l2' | None => false end
  end.

Definition is_take (o : cop) : bool := match o with KTake _ _ _ => true | _ => false end.

(* ---- model agreement ---- *)
Fixpoint model_run (c : wheel_cache) (ops : list cop) (os : list obs) : bool :=
  match ops, os with
  | [], [] => true
  | o :: ops', ob :: os' =>
      match wstep c o with
      | (c', r, fetched) =>
          option_eqb Nat.eqb r (ob_val ob) &&
          Bool.eqb (ob_err ob) (is_take o && match r with None => true | Some _ => false end) &&
          Bool.eqb (ob_fetched ob) fetched &&
          perm_b (map fst (c_data c')) (ob_keys ob) && model_run c' ops' os'
      end
  | _, _ => false
  end.

Fixpoint iter {A} (n : nat) (f : A -> A) (a : A) : A := match n with O => a | S n' => iter n' f (f a) end.

Definition model_ok (c : case) : bool :=
  model_run (iter (c_phase c) (ctick C10.Model.step_ok) (wnew (c_exp c) (c_limit c))) (c_ops c) (c_obs c).

(* ---- the property on the observations: replayed on the reference cache of Spec.v ---- *)
Definition keys_ok (limit : Z) (r : list rentry) (ob : obs) : bool :=
  perm_b (map rkey r) (ob_keys ob) && ((limit <=? 0)%Z || (length (ob_keys ob) <=? Z.to_nat limit)).

Fixpoint spec_run (limit dflt : Z) (T : nat) (r : list rentry) (ops : list cop) (os : list obs) : bool :=
  match ops, os with
  | [], [] => true
  | o :: ops', ob :: os' =>
      match o with
      | KSet k v _ =>
          if negb (in_scope dflt) then true else
          let r' := rput limit (k, v, T, dflt) r in keys_ok limit r' ob && spec_run limit dflt T r' ops' os'
      | KSetX k v e _ =>
          if negb (in_scope e) then true else
          let r' := rput limit (k, v, T, e) r in keys_ok limit r' ob && spec_run limit dflt T r' ops' os'
      | KGet k =>
          let r' := rtouch k r in
          option_eqb Nat.eqb (option_map rval (rfind k r)) (ob_val ob) && keys_ok limit r' ob &&
          spec_run limit dflt T r' ops' os'
      | KDel k => let r' := rdel k r in keys_ok limit r' ob && spec_run limit dflt T r' ops' os'
      | KTake k f _ =>
          match rfind k r with
          | Some e =>      (* cached: returned without fetching *)
              let r' := rtouch k r in
              option_eqb Nat.eqb (Some (rval e)) (ob_val ob) && negb (ob_err ob) && negb (ob_fetched ob) &&
              keys_ok limit r' ob && spec_run limit dflt T r' ops' os'
          | None =>
              match f with
              | Some v =>  (* fetched once, returned and cached *)
                  if negb (in_scope dflt) then true else
                  let r' := rput limit (k, v, T, dflt) r in
                  option_eqb Nat.eqb (Some v) (ob_val ob) && negb (ob_err ob) && ob_fetched ob &&
                  keys_ok limit r' ob && spec_run limit dflt T r' ops' os'
              | None =>    (* fetch failed: error, nothing cached *)
                  option_eqb Nat.eqb None (ob_val ob) && ob_err ob && ob_fetched ob &&
                  keys_ok limit r ob && spec_run limit dflt T r ops' os'
              end
          end
      | KTick =>
          let T' := S T in
          let present e := existsb (Nat.eqb (rkey e)) (ob_keys ob) in
          (* nothing appears; what disappears is in its window; what stays is not overdue *)
          forallb (fun k => existsb (fun e => rkey e =? k) r) (ob_keys ob) &&
          forallb (fun e => if present e then T' - rset e <? hi_ticks (rexp e)
                            else (lo_ticks (rexp e) <=? T' - rset e) && (T' - rset e <=? hi_ticks (rexp e))) r &&
          let r' := filter present r in keys_ok limit r' ob && spec_run limit dflt T' r' ops' os'
      end
  | _, _ => false
  end.

Definition spec_ok (c : case) : bool := spec_run (c_limit c) (c_exp c) (c_phase c) [] (c_ops c) (c_obs c).
